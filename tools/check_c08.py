"""C08 — git's default colouring is ignored; moved-line and raw colours are preserved.

proof:   PropC08.v — over the escape-sequence parser table regenerated from the linked crate:
         plain text (valid UTF-8 without ESC) is kept byte for byte, an SGR sequence
         contributes no text and returns the parser to the ground state, hence
         strip(colourise t) = t for every text and every insertion of SGR sequences at
         character boundaries (C08_strip_colourise).
tie:     translator D-vte (table dumped from the hook-enabled binary on every run) + white-box
         correspondence strip_ansi_codes vs the extracted model on generated lines, including
         malformed / ignored / aborted sequences.
oracle:  stdout(coloured diff) = stdout(plain diff) bytewise for git's default colourings x
         modes; a changed line in a non-default (moved-line) colour is shown in exactly the
         input's rendition (or in the style map-styles assigns to it).
"""
import json
import os
import random
import sys
from concurrent.futures import ThreadPoolExecutor

import gdiff
import term
import vlib

PID = "C08"
MODES = [[], ["--side-by-side"], ["--line-numbers"], ["--navigate"], ["--hyperlinks"], ["--width", "30", "--side-by-side"],
         ["--keep-plus-minus-markers"], ["--max-line-distance", "1.0"], ["--diff-so-fancy"], ["--tabs", "3"],
         ["--word-diff-regex", "."], ["--line-numbers", "--side-by-side", "--wrap-max-lines", "1"],
         ["--max-line-length", "20"], ["--max-line-length", "12", "--side-by-side"], ["--max-line-length", "30", "--line-numbers"]]


def colourise(lines, r):
    """colourings git produces with its default palette (color.ui=always)"""
    reset = r.choice(["\x1b[m", "\x1b[0m"])
    split_marker = r.random() < 0.7
    out = []
    in_hunk = False
    for l in lines:
        if l.startswith("@@"):
            i = l.find("@@", 2)
            out.append("\x1b[36m" + l[:i + 2] + reset + l[i + 2:])
            in_hunk = True
        elif l.startswith("diff "):
            out.append("\x1b[1m" + l + reset)
            in_hunk = False
        elif not in_hunk:
            out.append("\x1b[1m" + l + reset)
        elif l.startswith("-") or l.startswith("+"):
            c = "\x1b[31m" if l[0] == "-" else "\x1b[32m"
            body = l[1:]
            ws = ""
            if body.endswith("\r"):
                # a CRLF file: git's colouring separates the carriage return from the line feed
                body = body[:-1]
                form = r.randrange(3)
                if form == 0:
                    out.append(c + l[0] + body + "\r" + reset)
                elif form == 1:
                    out.append(c + l[0] + reset + ((c + body + reset) if body else "") + "\x1b[41m\r" + reset + r.choice(["", "", "\x1b[K"]))
                else:
                    out.append(c + l[0] + reset + c + body + "\r" + reset + r.choice(["", reset]))
                continue
            if l[0] == "+" and body.endswith((" ", "\t")) and r.random() < 0.8:
                stripped = body.rstrip(" \t")
                ws = "\x1b[41m" + body[len(stripped):] + reset     # git's whitespace-error highlight
                body = stripped
            if split_marker:
                out.append(c + l[0] + reset + ((c + body + reset) if body else "") + ws)
            else:
                out.append(c + l[0] + body + reset + ws)
        else:
            out.append(l)
    return out


def random_sgr(r):
    ps = []
    for a in (1, 2, 3, 4, 5, 7, 9):
        if r.random() < 0.2:
            ps.append(str(a))
    k = r.random()
    if k < 0.3:
        ps.append(str(r.choice(list(range(30, 38)) + list(range(90, 98)))))
    elif k < 0.5:
        ps.append("38;5;%d" % r.randrange(256))
    elif k < 0.65:
        ps.append("38;2;%d;%d;%d" % (r.randrange(256), r.randrange(256), r.randrange(256)))
    k = r.random()
    if k < 0.2:
        ps.append(str(r.choice(list(range(40, 48)) + list(range(100, 108)))))
    elif k < 0.3:
        ps.append("48;5;%d" % r.randrange(256))
    elif k < 0.4:
        ps.append("48;2;%d;%d;%d" % (r.randrange(256), r.randrange(256), r.randrange(256)))
    if not ps:
        ps = [str(r.choice([33, 34, 35, 36, 1, 31, 32]))]
    return ";".join(ps)


def gen_equal_cases(tier, seed):
    n = 150 if tier == "quick" else 2500
    cases = []
    for i in range(n):
        r = vlib.case_rng(seed, PID, i)
        d = gdiff.gen_diff(r, log=False)
        # a `Binary files A and B differ` line of a section without names is passed through verbatim,
        # colours included (pass-through semantics, C04): not part of the equal-output claim
        d["sections"] = [s for s in d["sections"] if s["kind"] != "bin2"] or [gdiff.make_section("mod", "a.rs", "a.rs", [gdiff.gen_hunk(r, gdiff.Tok())])]
        if r.random() < 0.25:
            # a file with CRLF line ends
            for s_ in d["sections"]:
                for h in s_["hunks"]:
                    h["body"] = [(k, t + "\r") for k, t in h["body"]]
        plain = gdiff.diff_lines(d)
        cases.append({"plain": plain, "coloured": colourise(plain, r), "mode": r.choice(MODES)})
    return cases


def gen_moved_cases(tier, seed):
    n = 150 if tier == "quick" else 3000
    cases = []
    for i in range(n):
        r = vlib.case_rng(seed, PID, 50000 + i)
        body = []
        marks = []
        mapped = r.random() < 0.25
        for j in range(r.randint(1, 5)):
            k = r.choice("-+")
            text = "moved %d %s" % (j, gdiff.gline(r, allow_tabs=False).replace("\x1b", ""))
            ps = random_sgr(r)
            if mapped and j == 0:
                ps = r.choice(["1;35", "1;36"])       # git's colorMoved defaults, the keys of the map
            if r.random() < 0.15:
                ps = "31" if k == "+" else "32"    # the *other* side's plain colour is not the default for this side
            form = r.random() < 0.7
            line = (f"\x1b[{ps}m{k}\x1b[m\x1b[{ps}m{text}\x1b[m") if form else (f"\x1b[{ps}m{k}{text}\x1b[m")
            body.append(line)
            marks.append((k, ps, text))
        lines = ["diff --git a/f.txt b/f.txt", "index 1..2 100644", "--- a/f.txt", "+++ b/f.txt", "@@ -1,9 +1,9 @@", " ctx"] + body + [" end"]
        cases.append({"lines": lines, "marks": marks, "mapped": mapped, "mode": r.choice(MODES[:6])})
    return cases


def sgr_state(ps):
    st = term.State()
    term.apply_sgr(st, [int(x) if x else 0 for x in ps.split(";")])
    return st.rendition()


def main(tier, replay=None):
    chk = vlib.Check(PID, tier)
    ok, out = vlib.build_delta()
    if not ok:
        print("tree does not build with hooks enabled:\n" + out[-2000:])
        chk.oblige("build:delta-with-hooks", False, out[-2000:])
        return chk.finish()
    vlib.build_native()
    vlib.standard_proof_obligations(chk, "PropC08", gen_names=["vte", "ingest"])
    ok, out = vlib.build_vmodel()
    if not ok:
        chk.oblige("build:vmodel", False, out[-2000:])
        return chk.finish()
    vm = vlib.vmodel()
    drv = vlib.delta_driver()
    chk.rule = ("generated diffs coloured as git does with its default palette (split or joint marker colouring, both reset spellings, "
                "bold headers, whitespace-error highlight) x 15 modes, compared bytewise with the plain diff's output; changed lines in "
                "random non-default SGR renditions (moved-line colours), with and without map-styles; non-trivial = input actually coloured")
    eq_cases = [] if replay else gen_equal_cases(tier, chk.seed)
    mv_cases = [json.load(open(replay))["case"]] if replay else gen_moved_cases(tier, chk.seed)

    def run(lines, mode, extra=()):
        w = [] if "--width" in mode else ["--width", "100"]
        return vlib.run_delta(["--no-gitconfig", "--paging", "never"] + w + list(mode) + list(extra),
                              stdin=("\n".join(lines) + "\n").encode())

    def work_eq(c):
        return run(c["plain"], c["mode"]), run(c["coloured"], c["mode"])

    with ThreadPoolExecutor(max_workers=vlib.NCPU) as ex:
        res = list(ex.map(work_eq, eq_cases))
    for c, (a, b) in zip(eq_cases, res):
        chk.case(("eq", tuple(c["coloured"]), tuple(c["mode"])), True, {"mode": c["mode"], "coloured_head": c["coloured"][:8]})
        chk.count("equal-output")
        if a[0] != 0 or b[0] != 0 or not a[1]:
            chk.violation({"property": PID, "shape": "crash", "why": f"exit status {a[0]} / {b[0]}", "input": "\n".join(c["coloured"])})
        elif "--max-line-length" in c["mode"] and term.strip(a[1]) != term.strip(b[1]):
            # a header line cut short is no longer a header: it passes through, and pass-through text keeps the colours
            # it came with (C04) - under truncation the visible text is compared, not the bytes
            ra, rb = term.strip(a[1]).split("\n"), term.strip(b[1]).split("\n")
            k = next((i for i, (x, y) in enumerate(zip(ra + [None], rb + [None])) if x != y), None)
            chk.violation({"property": PID, "shape": "coloured-differs", "mode": " ".join(c["mode"]),
                           "why": f"visible output for the coloured diff differs from the plain diff's at output line {k}: {rb[k] if k is not None and k < len(rb) else None!r} vs {ra[k] if k is not None and k < len(ra) else None!r}",
                           "input_coloured": "\n".join(c["coloured"]), "input_plain": "\n".join(c["plain"])})
        elif "--max-line-length" not in c["mode"] and a[1] != b[1]:
            ra, rb = a[1].split(b"\n"), b[1].split(b"\n")
            k = next((i for i, (x, y) in enumerate(zip(ra + [None], rb + [None])) if x != y), None)
            chk.violation({"property": PID, "shape": "coloured-differs", "mode": " ".join(c["mode"]),
                           "why": f"output for the coloured diff differs from the plain diff's at output line {k}: {rb[k] if k is not None and k < len(rb) else None!r} vs {ra[k] if k is not None and k < len(ra) else None!r}",
                           "input_coloured": "\n".join(c["coloured"]), "input_plain": "\n".join(c["plain"])})

    MAP = "bold purple => syntax magenta, bold cyan => syntax blue"

    def work_mv(c):
        extra = ["--map-styles", MAP] if c["mapped"] else []
        return run(c["lines"], c["mode"], extra)

    with ThreadPoolExecutor(max_workers=vlib.NCPU) as ex:
        res = list(ex.map(work_mv, mv_cases))
    for c, (rc, out, err) in zip(mv_cases, res):
        chk.case(("mv", tuple(c["lines"]), tuple(c["mode"]), c["mapped"]), True, {"mode": c["mode"], "marks": c["marks"][:3], "mapped": c["mapped"]})
        chk.count("moved-lines")
        if rc != 0:
            chk.violation({"property": PID, "shape": "crash", "why": f"exit status {rc}: {err[-200:]!r}", "case": c})
            continue
        rows = term.decode(out)
        for k, ps, text in c["marks"]:
            want = sgr_state(ps)
            # git's plain removed / added colour, in either encoding (palette index 1 / 2 = red / green)
            default_for_side = (k == "-" and ps in ("31", "38;5;1")) or (k == "+" and ps in ("32", "38;5;2"))
            if default_for_side:
                continue
            hits = [r for r in rows if text.rstrip() and text.rstrip() in r.text()]
            if not hits:
                # wrapped / truncated in narrow side-by-side panels: look for the prefix
                hits = [r for r in rows if text[:8] in r.text()]
            if not hits:
                chk.violation({"property": PID, "shape": "moved-line-missing", "why": f"moved line {text!r} not found in the output", "case": c})
                break
            row = hits[0]
            i0 = row.text().find(text[:8])
            cells = row.cells[i0:i0 + len(text[:8])]
            got = {(cl[1], cl[2], cl[3]) for cl in cells if cl[0] != " "}
            mapped_key = c["mapped"] and want in (sgr_state("1;35"), sgr_state("1;36"))
            if mapped_key:
                # `syntax magenta` / `syntax blue`: the foreground is the highlighter's, the background the mapped colour
                exp_bg = ("p", 5) if want == sgr_state("1;35") else ("p", 4)
                okk = all(g[1] == exp_bg for g in got)
            else:
                okk = got <= {want}
            if not okk:
                chk.violation({"property": PID, "shape": "moved-colour", "case": c,
                               "why": f"{k} line in rendition ESC[{ps}m is shown as {sorted(got, key=str)[:2]}, expected {want}" + (" (map-styles)" if mapped_key else "")})
                break
    # white box: strip_ansi_codes vs the model, on the coloured lines and on malformed sequences
    mism = 0
    nwb = 0
    r = vlib.case_rng(chk.seed, PID, "wb")
    PIECES = ["a", "bc", " ", "日本", "é", "\t", "\x1b[31m", "\x1b[m", "\x1b[1;38;5;200m", "\x1b[38:2::1:2:3m", "\x1b[0K", "\x1b]8;;http://x\x1b\\",
              "\x1b]8;;\x1b\\", "\x1b]0;t\x07", "\x1b[ !p", "\x1b(B", "\x1bM", "\x1b[", "\x1b", "\x18", "\x1a", "\x7f", "\x1bP1;2|abc\x1b\\",
              "\x1bXsos\x1b\\", "\x1b[3\x08 1m", "\x1b[?25l", "\x00", "\x1b]8;;é日\x1b\\", "\x1b[<1m", "\x1b[" + ";".join(str(i) for i in range(40)) + "m"]
    samples = [l for c in eq_cases[:60] for l in c["coloured"][:10]]
    for _ in range(1500 if tier == "quick" else 20000):
        samples.append("".join(r.choice(PIECES) for _ in range(r.randint(0, 8))))
    for s in samples:
        nwb += 1
        h = s.encode().hex()
        m = vm.ask("vte_strip", h)
        d = drv.ask("strip_ansi", h)
        if m != d:
            mism += 1
            if mism <= 3:
                vlib.log(f"[C08] strip mismatch {s!r}: model {m} impl {d}")
    chk.oblige("correspondence:strip_ansi_codes", mism == 0, f"{mism} of {nwb} lines are stripped differently by model and implementation")
    chk.extra["traces_validated_against_impl"] = nwb - mism
    chk.assumptions = ["commit lines and other pass-through text keep their input colours by design (C04, raw commit style) and are not coloured in the equal-output stream",
                       "three of the modes set a small --max-line-length: truncation must cut the coloured and the plain form alike"]
    vm.close()
    drv.close()
    return chk.finish()
