#!/bin/bash
# run every registered check (quick tier) on the current tree, refreshing evidence/
cd "$(dirname "$0")/.."
for p in $(python3 -c "import json; print(' '.join(c['property_id'] for c in json.load(open('MANIFEST.json'))['checks']))"); do
  out=$(bin/check $p --tier ${1:-quick} 2>&1 | tail -3 | tr '\n' ' ')
  echo "$p: $out"
done
