"""C17 — git blame: rows keep code and attribution; colours follow commits.

proof:   PropC17.v — for every key sequence and every palette size >= 2 the colour
         assignment model satisfies the three colour clauses and reaches no unreachable arm.
tie:     black-box correspondence: generated blame streams through the real binary
         (stdin), background colours decoded by the terminal model and compared with the
         extracted model's colour indices, row by row.
oracle:  extracted `specb` (proved equivalent to the specification) on the implementation's
         rows; row contents (code suffix, line number, metadata blank iff repeated key).
"""
import itertools
import json
import os
import sys
from concurrent.futures import ThreadPoolExecutor

import term
import vlib

PID = "C17"
AUTHORS = ["Dan Davison", "Al", "Björn Ångström", "日本語 太郎", "x y z w", "O'Neil (ext)", "Zoë"]
ZONES = ["-0700", "+0000", "+0530", "+1400", "-1200"]
CODES = ["let x = 1;", "    indented();", "", "fn main() { println!(\"hi\"); }", "// コメント", "a | b │ c", "x)  2021-01-01 00:00:00 +0000 5) y"[:9]]


def commit_of(key):
    return "%08x" % (0xA0000000 + key * 0x01010101 % 0x0FFFFFFF)


def make_line(key, lineno, rng, gitcol=False, boundary=False, renamed=False):
    c = commit_of(key)
    if boundary:
        c = "^" + c[:7]
    author = AUTHORS[key % len(AUTHORS)]
    tz = ZONES[key % len(ZONES)]
    date = "20%02d-0%d-1%d 1%d:2%d:3%d" % (10 + key % 13, 1 + key % 9, key % 9, key % 9, key % 9, key % 9)
    fname = " src/old name.rs" if renamed else ""
    code = rng.choice(CODES)
    line = f"{c}{fname} ({author} {date} {tz} {lineno:>3}) {code}"
    if gitcol:
        line = "\x1b[36m" + line + "\x1b[m"
    return line, code


def palette(n):
    return " ".join("#%02x%02x%02x" % (i + 1, i + 1, i + 1) for i in range(n))


def run_case(case):
    """case: dict(n, keys, flags, seed) -> observation"""
    rng = vlib.case_rng(case["seed"], PID, 0)
    lines, codes = [], []
    for i, (k, g) in enumerate(zip(case["keys"], case["flags"])):
        # attributes of a key must be a function of the key (same commit => same metadata)
        l, code = make_line(k, i + 1, rng, gitcol=g, boundary=(k % 5 == 4), renamed=(k % 7 == 3))
        lines.append(l)
        codes.append(code)
    inp = ("\n".join(lines) + "\n").encode()
    close = case.get("tc") == "never"
    # distinct but close colours: without 24-bit colour they are one and the same cell of the 256-colour cube
    pal = " ".join("#%02x%02x%02x" % (0x30 + 2 * i, 0x30 + 2 * i, 0x30 + 2 * i) for i in range(case["n"])) if close else palette(case["n"])
    sep = ["--blame-separator-format", "│{n:^4_%s}│" % case["numbers"]] if case.get("numbers") else []
    rc, out, err = vlib.run_delta(["--no-gitconfig", "--true-color", case.get("tc", "always"), "--blame-palette", pal,
                                   "--paging", "never", "--width", "200"] + sep, stdin=inp)
    rows = term.decode(out) if rc == 0 else []
    cols = []
    ids = {}
    for r in rows:
        bg = r.cells[0][2] if r.cells else None
        if close:
            # colours are identified by what the terminal shows (numbered in order of first appearance)
            cols.append(None if not bg or bg == term.DEFAULT else ids.setdefault(bg, len(ids)))
        elif bg and bg[0] == "rgb" and bg[1] == bg[2] == bg[3] and 1 <= bg[1] <= case["n"]:
            cols.append(bg[1] - 1)
        else:
            cols.append(None)
    return {"rc": rc, "stderr": err.decode("utf-8", "replace")[-300:], "rows": [r.text() for r in rows], "cols": cols,
            "lines": lines, "codes": codes}


def row_content_ok(case, obs):
    """code suffix unchanged, line number present, metadata blank iff same key as predecessor"""
    why = []
    if len(obs["rows"]) != len(case["keys"]):
        return [f"{len(case['keys'])} blame lines, {len(obs['rows'])} output rows"]
    prev = None
    for i, (k, row, code) in enumerate(zip(case["keys"], obs["rows"], obs["codes"])):
        if not row.endswith(" " + code if code else " "):
            if not row.rstrip().endswith(code.rstrip()):
                why.append(f"row {i}: code changed: {row!r} vs {code!r}")
        parts = row.split("│", 2)
        if len(parts) < 3:
            why.append(f"row {i}: no separators: {row!r}")
            continue
        meta, num = parts[0], parts[1]
        mode = case.get("numbers")
        # `every-N`: at the start of every block and on every N-th line; `block`: at the start of every block only
        shown = True if not mode or mode == "every" else (prev != k or (mode.startswith("every-") and (i + 1) % int(mode[6:]) == 0))
        if shown and num.strip() != str(i + 1):
            why.append(f"row {i}: line number {num!r} != {i + 1}" + (f" (line-number mode {mode})" if mode else ""))
        if not shown and num.strip() not in ("", str(i + 1)):
            why.append(f"row {i}: line number field {num!r} is neither blank nor {i + 1}")
        if prev == k:
            if meta.strip() != "":
                why.append(f"row {i}: metadata not blanked on repeated key: {meta!r}")
        else:
            commit = commit_of(k)
            shown = ("^" + commit[:7]) if k % 5 == 4 else commit[:8]
            if shown not in meta:
                why.append(f"row {i}: commit {shown} missing from metadata {meta!r}")
            author = AUTHORS[k % len(AUTHORS)]
            if author[:3] not in meta:
                why.append(f"row {i}: author missing from metadata {meta!r}")
        prev = k
    return why


def gen_cases(tier, seed):
    cases = []
    # exhaustive small scope
    maxlen, nkeys = (5, 3) if tier == "quick" else (7, 4)
    sizes = (2, 3) if tier == "quick" else (2, 3, 4)
    for n in sizes:
        for L in range(1, maxlen + 1):
            for ks in itertools.product(range(nkeys), repeat=L):
                # canonical: first occurrences in increasing order (symmetry reduction)
                seen = []
                okc = True
                for k in ks:
                    if k not in seen:
                        if k != len(seen):
                            okc = False
                            break
                        seen.append(k)
                if okc:
                    cases.append({"n": n, "keys": list(ks), "flags": [False] * L, "seed": seed, "kind": "exhaustive"})
    # random long sequences, many keys, larger palettes
    nrand = 150 if tier == "quick" else 1500
    for i in range(nrand):
        rng = vlib.case_rng(seed, PID, 1000 + i)
        n = rng.choice([2, 3, 3, 4, 5, 7])
        L = rng.randint(4, 40)
        nk = rng.randint(2, 9)
        ks = []
        for _ in range(L):
            if ks and rng.random() < 0.3:
                ks.append(ks[-1])
            else:
                ks.append(rng.randrange(nk))
        cases.append({"n": n, "keys": ks, "flags": [False] * L, "seed": seed + i, "kind": "random"})
    # the other line-number modes of the separator format: every-N, block
    for i in range(60 if tier == "quick" else 600):
        rng = vlib.case_rng(seed, PID, 12000 + i)
        L = rng.randint(3, 16)
        ks = []
        for _ in range(L):
            ks.append(ks[-1] if ks and rng.random() < 0.45 else rng.randrange(4))
        cases.append({"n": rng.choice([2, 3, 4]), "keys": ks, "flags": [False] * L, "seed": seed + i, "kind": "line-number-modes",
                      "numbers": rng.choice(["every-2", "every-3", "every-5", "block", "every"])})
    # distinct palette colours that are close to each other, with 24-bit colour off
    for i in range(60 if tier == "quick" else 600):
        rng = vlib.case_rng(seed, PID, 9000 + i)
        n = rng.choice([2, 3, 4])
        L = rng.randint(2, 12)
        ks = [rng.randrange(4) for _ in range(L)]
        cases.append({"n": n, "keys": ks, "flags": [False] * L, "seed": seed + i, "kind": "close-colours-no-24-bit", "tc": "never"})
    # separate stream: lines that git itself coloured, mixed with uncoloured ones
    nmix = 60 if tier == "quick" else 400
    for i in range(nmix):
        rng = vlib.case_rng(seed, PID, 5000 + i)
        n = rng.choice([2, 3, 4])
        L = rng.randint(2, 8)
        ks = [rng.randrange(3) for _ in range(L)]
        fl = [rng.random() < 0.4 for _ in range(L)]
        cases.append({"n": n, "keys": ks, "flags": fl, "seed": seed + i, "kind": "git-coloured"})
    return cases


def main(tier, replay=None):
    chk = vlib.Check(PID, tier)
    ok, out = vlib.build_delta()
    if not ok:
        print("tree does not build with hooks enabled:\n" + out[-2000:])
        chk.oblige("build:delta-with-hooks", False, out[-2000:])
        return chk.finish()
    vlib.build_native()
    vlib.standard_proof_obligations(chk, "PropC17", gen_names=("blamenumbers",))
    ok, out = vlib.build_vmodel()
    if not ok:
        chk.oblige("build:vmodel", False, out[-2000:])
        return chk.finish()
    vm = vlib.vmodel()
    if replay:
        with open(replay) as f:
            cases = [json.load(f)["case"]]
    else:
        cases = gen_cases(tier, chk.seed)
    chk.rule = ("blame streams: all key sequences up to a length bound over a small key set (up to renaming) x palette "
                "sizes, random long sequences, and a separate stream mixing lines coloured by git; non-trivial = at "
                "least two distinct keys")
    with ThreadPoolExecutor(max_workers=vlib.NCPU) as ex:
        obs = list(ex.map(run_case, cases))
    mism = 0
    mism_num = n_num = 0
    for case, o in zip(cases, obs):
        keys = ",".join(str(k) for k in case["keys"])
        flags = "".join("1" if f else "0" for f in case["flags"])
        m = vm.ask("blame_run", case["n"], keys, flags)
        chk.count(case["kind"])
        chk.case((case["n"], keys, flags), len(set(case["keys"])) >= 2,
                 {"palette_size": case["n"], "keys": case["keys"], "git_coloured": flags, "model": m,
                  "impl_colours": o["cols"]})
        why = []
        # correspondence
        if case.get("tc") == "never":
            corr = True    # colours are identified up to renaming there: decided by the spec predicate below
        elif m.startswith("PANIC"):
            corr = o["rc"] != 0
        else:
            want = [None if c == "-" else int(c) for c in m.split("\t")[1].split(",")]
            corr = o["rc"] == 0 and o["cols"] == want
        if not corr:
            mism += 1
            if mism <= 3:
                vlib.log(f"[C17] correspondence mismatch: {case} model={m} impl={o['cols']} rc={o['rc']}")
        # correspondence of the line-number field with the translated condition (GenBlameNumbers.v)
        if case.get("numbers") and o["rc"] == 0 and len(o["rows"]) == len(case["keys"]):
            md = case["numbers"]
            mname, mn = ("block", 0) if md == "block" else (("every", int(md[6:])) if md.startswith("every-") else ("on", 0))
            for i_, (k_, row_) in enumerate(zip(case["keys"], o["rows"])):
                parts_ = row_.split("│", 2)
                if len(parts_) < 3:
                    continue
                n_num += 1
                rep_ = vm.ask("blame_blank", mname, mn, 1 if (i_ > 0 and case["keys"][i_ - 1] == k_) else 0, i_ + 1)
                if (rep_ == "1") != (parts_[1].strip() == ""):
                    mism_num += 1
                    if mism_num <= 3:
                        vlib.log(f"[C17] line-number field: mode {md} row {i_} {row_!r}: model blank={rep_}")
        # oracle on the implementation
        if o["rc"] != 0:
            why.append(f"exit status {o['rc']}: {o['stderr']}")
        else:
            why += row_content_ok(case, o)
            if not any(case["flags"]):
                if None in o["cols"]:
                    why.append(f"a row has no palette background: {o['cols']}")
                else:
                    sp = vm.ask("blame_spec", keys, ",".join(str(c) for c in o["cols"]))
                    if sp != "true":
                        why.append(f"colour clauses violated: keys {case['keys']} colours {o['cols']}")
        if why:
            chk.violation({"property": PID, "case": case, "input": "\n".join(o["lines"]), "why": "; ".join(why[:4]),
                           "impl_colours": o["cols"], "model": m, "rows": o["rows"][:12], "stderr": o["stderr"]})
    chk.oblige("correspondence:blame-line-number-field", mism_num == 0, f"{mism_num} of {n_num} line-number fields are blank / filled differently from the model")
    chk.oblige("correspondence:blame-colours", mism == 0, f"{mism} of {len(cases)} streams disagree with the model")
    chk.extra["traces_validated_against_impl"] = len(cases) - mism
    chk.assumptions = ["palette colours pairwise distinct (the generated palettes are)",
                       "row contents (code, number, metadata) are checked on the implementation only; the Coq model covers the colour assignment"]
    vm.close()
    return chk.finish()
