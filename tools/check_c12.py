"""C12 — style strings mean what git's colour language says they mean.

proof:   PropC12.v — word-level model of parse_ansi_term_style / Display for Style and of
         ansi_term painting: attribute words may stand anywhere (only the order of colour
         words matters), first colour = foreground, second = background, a third colour is
         rejected; the printed form parses back to the same style; text painted with a style
         decodes, in the terminal model, to exactly that style and ends in the default
         rendition.
tie:     white-box correspondence through the hook driver (Style::from_str, Display,
         paint) on exhaustively enumerated style strings up to a token bound, all 256 palette
         numbers in both slots, random #rrggbb, mixed case and quoting, 24-bit and 256-colour
         mode; black-box on the binary for every style-typed option.
oracle:  decoded cell style of painted text = the style the grammar denotes; the value
         reported by --show-config, supplied again, renders byte-identically.
"""
import itertools
import json
import os
import re
import sys
from concurrent.futures import ThreadPoolExecutor

import gdiff
import term
import vlib

PID = "C12"
ANSI16 = {"black": 0, "red": 1, "green": 2, "yellow": 3, "blue": 4, "magenta": 5, "purple": 5, "cyan": 6, "white": 7}
for _n, _v in list(ANSI16.items()):
    ANSI16["bright-" + _n] = _v + 8
    ANSI16["bright" + _n] = _v + 8
ATTRS = {"blink": "blink", "bold": "bold", "dim": "dim", "hidden": "hidden", "italic": "italic", "reverse": "reverse",
         "strike": "strike", "ul": "ul", "underline": "ul"}
CSS = {"orange": (255, 165, 0), "gold": (255, 215, 0), "teal": (0, 128, 128), "hotpink": (255, 105, 180)}


class Lexer:
    """string -> model words; the 24-bit -> 256 table is taken from the implementation
    (table oracle), everything else is the documented grammar"""

    def __init__(self, drv):
        self.drv = drv
        self.t256 = {}

    def to256(self, rgb):
        if rgb not in self.t256:
            r = self.drv.ask("style_parse", vlib.hexs("#%02x%02x%02x" % rgb), 0)
            m = re.search(r"fg=f(\d+)", r)
            self.t256[rgb] = int(m.group(1)) if m else None
        return self.t256[rgb]

    def color(self, w, tc):
        if w == "normal":
            return "normal"
        if w.startswith("#") and re.fullmatch(r"#[0-9a-f]{6}", w):
            rgb = (int(w[1:3], 16), int(w[3:5], 16), int(w[5:7], 16))
            return "r%02x%02x%02x" % rgb if tc else "f%d" % self.to256(rgb)
        if re.fullmatch(r"\d+", w) and int(w) < 256:
            n = int(w)
            return "n%d" % n if n < 8 else "f%d" % n
        if w in ANSI16:
            n = ANSI16[w]
            return "n%d" % n if n < 8 else "f%d" % n
        if w in CSS:
            rgb = CSS[w]
            return "r%02x%02x%02x" % rgb if tc else "f%d" % self.to256(rgb)
        return None

    def words(self, s, tc):
        out = []
        for w in s.lower().split():
            w = w.strip("\"'")
            if w in ATTRS:
                out.append(ATTRS[w])
            elif w in ("omit", "raw", "syntax", "auto"):
                out.append(w)
            elif w in ("line-number", "file", "omit-code-fragment"):
                out.append("hf")
            else:
                c = self.color(w, tc)
                if c is None:
                    return None
                out.append(c)
        return out


def color_name(c):
    """src/color.rs color_to_string on a model colour"""
    if c == "normal":
        return "normal"
    k, v = c[0], c[1:]
    if k == "n":
        return ["black", "red", "green", "yellow", "blue", "purple", "cyan", "white"][int(v)]
    if k == "f":
        n = int(v)
        if n < 16:
            return "bright-" + ["black", "red", "green", "yellow", "blue", "magenta", "cyan", "white"][n - 8]
        return str(n)
    return '"#%s"' % v


def display_string(words):
    return " ".join(w if w in ATTRS or w in ("omit", "raw", "syntax", "auto", "normal") else color_name(w) for w in words)


def tokens_to_bytes(toks):
    out = b""
    for t in toks.split(" "):
        if not t:
            continue
        if t[0] == "S":
            out += b"\x1b[" + t[1:].encode() + b"m"
        else:
            out += bytes.fromhex(t[1:])
    return out


ALPHABET = ["red", "blue", "brightgreen", "bright-red", "normal", "auto", "syntax", "3", "200", "12", "#0a0b0c", "#ffffff",
            "bold", "dim", "italic", "ul", "blink", "reverse", "hidden", "strike", "omit", "raw"]
COLOURISH = set(ALPHABET[:12])


def gen_strings(tier, seed):
    r = vlib.case_rng(seed, PID, "strings")
    out = [""]
    for n in (1, 2, 3):
        for ws in itertools.product(ALPHABET, repeat=n):
            ncol = sum(1 for w in ws if w in COLOURISH)
            if ncol >= 3 and r.random() > 0.02:
                continue   # error cases kill the driver process: keep a sample
            if n == 3 and tier == "quick" and r.random() > 0.06:
                continue
            out.append(" ".join(ws))
    if tier == "thorough":
        for _ in range(4000):
            ws = [r.choice(ALPHABET) for _ in range(4)]
            if sum(1 for w in ws if w in COLOURISH) <= 2:
                out.append(" ".join(ws))
    for n in range(256):
        out.append(f"{n} {255 - n}")
        out.append(f"bold {n}")
    for _ in range(200 if tier == "quick" else 2000):
        out.append("#%06x %s #%06x" % (r.getrandbits(24), r.choice(["", "bold", "ul italic"]), r.getrandbits(24)))
    for s in ["Bold RED", "\"blue\" 'ul'", "  italic\t#ABCDEF  ", "Bright-Blue brightWhite", "UNDERLINE magenta", "purple", "orange teal",
              "gold", "line-number red", "file omit-code-fragment blue bold", "hidden red", "strike dim 17 18"]:
        out.append(s)
    return out


STYLE_OPTS = ["minus-style", "minus-emph-style", "minus-non-emph-style", "plus-style", "plus-emph-style", "zero-style",
              "line-numbers-minus-style", "line-numbers-plus-style", "line-numbers-zero-style", "line-numbers-left-style",
              "line-numbers-right-style", "file-style", "hunk-header-style", "hunk-header-file-style",
              "hunk-header-line-number-style", "commit-style", "whitespace-error-style", "blame-code-style",
              "grep-file-style", "grep-line-number-style", "grep-match-line-style", "inline-hint-style"]
DIFF = ["commit 1234567890abcdef1234567890abcdef12345678", "Author: A <a@b.c>", "", "    msg", "",
        "diff --git a/f.txt b/f.txt", "index 1..2 100644", "--- a/f.txt", "+++ b/f.txt", "@@ -1,3 +1,3 @@ ctx",
        " same", "-old word here", "+new word here", " tail   "]


def main(tier, replay=None):
    chk = vlib.Check(PID, tier)
    ok, out = vlib.build_delta()
    if not ok:
        print("tree does not build with hooks enabled:\n" + out[-2000:])
        chk.oblige("build:delta-with-hooks", False, out[-2000:])
        return chk.finish()
    vlib.build_native()
    vlib.standard_proof_obligations(chk, "PropC12")
    ok, out = vlib.build_vmodel()
    if not ok:
        chk.oblige("build:vmodel", False, out[-2000:])
        return chk.finish()
    vm = vlib.vmodel()
    drv = vlib.delta_driver()
    lex = Lexer(drv)
    strings = [json.load(open(replay))["style"]] if replay else gen_strings(tier, chk.seed)
    chk.rule = ("style strings: all strings of <= 3 tokens over a 22-token alphabet (error cases sampled), all 256 palette numbers in both "
                "slots, random #rrggbb, case/quoting variants, x 24-bit and 256-colour mode (white box); every style-typed option "
                "through the binary with --show-config round trip; non-trivial = >= 2 tokens")
    mism = 0
    nwb = 0
    for s in strings:
        for tc in (1, 0):
            ws = lex.words(s, tc)
            if ws is None:
                continue
            nwb += 1
            warg = ",".join(ws)
            m = vm.ask("style_parse", warg)
            d = drv.ask("style_parse", vlib.hexs(s), tc)
            chk.case((s, tc), len(ws) >= 2, {"style": s, "true_color": tc, "words": ws, "model": m, "impl": d})
            chk.count("error" if m.startswith("ERR") else "ok")
            if m.startswith("ERR"):
                if not d.startswith("DIED"):
                    mism += 1
                    vlib.log(f"[C12] model rejects {s!r} but the implementation answered {d}")
                continue
            if d != m:
                mism += 1
                if mism <= 3:
                    vlib.log(f"[C12] parse mismatch {s!r} tc={tc}: model {m} impl {d}")
                chk.violation({"property": PID, "style": s, "true_color": tc, "why": f"style string {s!r} parsed as {d}, the grammar denotes {m}",
                               "shape": "parse"})
                continue
            # printed form
            md = vm.ask("style_display", warg).split("\t")[1]
            want = display_string(md.split(",")) if md else ""
            got = vlib.unhex(drv.ask("style_display", vlib.hexs(s), tc).split("\t")[1]).decode()
            if got != want:
                mism += 1
                if mism <= 3:
                    vlib.log(f"[C12] display mismatch {s!r}: model {want!r} impl {got!r}")
            # round trip of the printed form (property clause): parse(printed) renders the same
            back = drv.ask("style_parse", vlib.hexs(got), tc)
            raw = "raw=1" in d
            if back != d and not raw:
                chk.violation({"property": PID, "style": s, "true_color": tc, "shape": "roundtrip",
                               "why": f"{s!r} is reported as {got!r}, which parses to {back} instead of {d}"})
            # painting
            if "raw=1" not in d:
                mp = vm.ask("ansi_strings", warg + ":" + vlib.hexs("Tx"))
                toks, bal = mp.split("\t")[1], mp.split("\t")[2]
                want_b = tokens_to_bytes(toks)
                got_b = vlib.unhex(drv.ask("style_paint", vlib.hexs(s), tc, vlib.hexs("Tx")).split("\t")[1])
                if got_b != want_b or bal != "balanced":
                    mism += 1
                    if mism <= 3:
                        vlib.log(f"[C12] paint mismatch {s!r}: model {want_b!r} impl {got_b!r}")
                # oracle: decode the implementation's bytes with the independent terminal model
                rows = term.decode(got_b)
                cells = rows[0].cells if rows else []
                fields = dict(x.split("=") for x in d.split("\t")[1].split(";"))
                exp_fg = term.DEFAULT if fields["fg"] == "-" else decode_color(fields["fg"])
                exp_bg = term.DEFAULT if fields["bg"] == "-" else decode_color(fields["bg"])
                exp_at = frozenset(a for a in fields["attrs"].split(",") if a)
                okc = all(c[1] == exp_fg and c[2] == exp_bg and c[3] == exp_at for c in cells) and len(cells) == 2 \
                    and rows[0].end_default
                if not okc:
                    chk.violation({"property": PID, "style": s, "true_color": tc, "shape": "paint",
                                   "why": f"text painted with {s!r} shows {cells[:1]} (end default: {rows[0].end_default if rows else None}), expected fg {exp_fg} bg {exp_bg} attrs {sorted(exp_at)}"})
    chk.oblige("correspondence:style-parse-display-paint", mism == 0, f"{mism} of {nwb} style strings differ between model and implementation")
    chk.extra["traces_validated_against_impl"] = nwb - mism
    # ---- black box: every style-typed option, --show-config round trip
    if not replay:
        r = vlib.case_rng(chk.seed, PID, "bb")
        samples = ["bold red", "ul 12 #102030", "italic blue normal", "reverse hidden brightyellow", "strike dim 200 17", "syntax bold #112233",
                   "blink magenta white", "normal", "ul", "bold ul italic 33"]
        bb = [(o, r.choice(samples)) for o in STYLE_OPTS] + [(o, "ul bold red") for o in ("commit-style", "file-style", "hunk-header-style")]
        if tier == "thorough":
            bb += [(o, s) for o in STYLE_OPTS for s in samples]

        def run(args):
            return vlib.run_delta(["--no-gitconfig", "--paging", "never", "--true-color", "always", "--line-numbers"] + args,
                                  stdin=("\n".join(DIFF) + "\n").encode())

        def work(item):
            o, s = item
            rc1, out1, _ = run([f"--{o}", s])
            rc2, cfgout, _ = run([f"--{o}", s, "--show-config"])
            m = re.search(r"^\s*" + re.escape(o) + r"\s*=\s*(.*)$", term.strip(cfgout), re.M)
            rep = m.group(1).strip() if m else None
            rc3, out3, _ = run([f"--{o}", rep]) if rep is not None else (None, b"", b"")
            return rc1, out1, rep, rc3, out3

        with ThreadPoolExecutor(max_workers=vlib.NCPU) as ex:
            res = list(ex.map(work, bb))
        for (o, s), (rc1, out1, rep, rc3, out3) in zip(bb, res):
            chk.case(("bb", o, s), True, {"option": o, "style": s, "reported": rep})
            chk.count("blackbox")
            if rc1 == 0 and rep is None:
                chk.count("blackbox:not-reported-by-show-config")
                continue   # this option is not listed by --show-config: nothing to round-trip
            if rc1 != 0 or rep is None or rc3 != 0:
                chk.violation({"property": PID, "option": o, "style": s, "shape": "bb-error",
                               "why": f"--{o} {s!r}: exit {rc1}, reported value {rep!r}, second run exit {rc3}"})
            elif out1 != out3:
                chk.violation({"property": PID, "option": o, "style": s, "reported": rep, "shape": "bb-roundtrip",
                               "why": f"--{o} {s!r} is reported by --show-config as {rep!r}; supplied again it renders differently"})
    # ---- black box: removed / added / unchanged lines are painted with their own option's style, and with no
    #      other option's: (--minus-style, --plus-style, --zero-style) drawn independently, incl. raw on coloured input
    if not replay or (replay and json.load(open(replay)).get("shape") == "hunk-style"):
        r = vlib.case_rng(chk.seed, PID, "hunk")
        pool = ["bold red", "ul 12 #102030", "italic blue normal", "reverse brightyellow", "strike dim 200 17", "normal", "bold ul italic 33 52",
                "raw", "raw", "syntax 22", "blink magenta white"]
        hcases = [{"minus": r.choice(pool), "plus": r.choice(pool), "zero": r.choice(pool), "coloured": r.random() < 0.5}
                  for _ in range(60 if tier == "quick" else 1200)]
        hcases += [{"minus": "raw", "plus": "bold red", "zero": "normal", "coloured": False}, {"minus": "bold red", "plus": "raw", "zero": "normal", "coloured": True},
                   {"minus": "normal", "plus": "normal", "zero": "raw", "coloured": True}]
        if replay:
            hcases = [json.load(open(replay))["case"]]
        # git's own default colours for removed / added lines (any other rendition is kept as a moved-line colour: C08);
        # context lines are not coloured by git
        IN_SGR = {"-": "31", "+": "32", " ": None}

        def hunk_input(coloured):
            body = [("-", "old Tmq x"), (" ", "ctx Tzq y"), ("+", "new Tpq z")]
            lines = ["diff --git a/f.txt b/f.txt", "index 1..2 100644", "--- a/f.txt", "+++ b/f.txt", "@@ -1,2 +1,2 @@"]
            for k, t in body:
                lines.append(f"\x1b[{IN_SGR[k]}m{k}{t}\x1b[m" if (coloured and IN_SGR[k]) else k + t)
            return ("\n".join(lines) + "\n").encode()

        def work_h(c):
            return vlib.run_delta(["--no-gitconfig", "--paging", "never", "--true-color", "always", "--syntax-theme", "none", "--minus-style", c["minus"],
                                   "--plus-style", c["plus"], "--zero-style", c["zero"]], stdin=hunk_input(c["coloured"]))
        with ThreadPoolExecutor(max_workers=vlib.NCPU) as ex:
            hres = list(ex.map(work_h, hcases))
        for c, (rc, out, err) in zip(hcases, hres):
            chk.case(("hunk-style", json.dumps(c, sort_keys=True)), True, c)
            chk.count("blackbox:hunk-line-style")
            if rc != 0:
                chk.violation({"property": PID, "shape": "hunk-style", "case": c, "why": f"exit status {rc}"})
                continue
            rows = term.decode(out)
            why = []
            for key, tokv, k in (("minus", "Tmq", "-"), ("zero", "Tzq", " "), ("plus", "Tpq", "+")):
                style = c[key]
                hit = [row for row in rows if tokv in row.text()]
                if len(hit) != 1:
                    why.append(f"the {key} line is shown {len(hit)} times")
                    continue
                t = hit[0].text()
                i0 = t.find(tokv)
                cells = hit[0].cells[i0:i0 + 3]
                if style == "raw":
                    if c["coloured"] and IN_SGR[k]:
                        st = term.State()
                        term.apply_sgr(st, [int(x) for x in IN_SGR[k].split(";")])
                        want = (st.fg, st.bg, frozenset(st.attrs))
                    else:
                        want = (term.DEFAULT, term.DEFAULT, frozenset())
                else:
                    d = drv.ask("style_parse", vlib.hexs(style), "1")
                    fields = dict(x.split("=") for x in d.split("\t")[1].split(";"))
                    want = (term.DEFAULT if fields["fg"] == "-" else decode_color(fields["fg"]),
                            term.DEFAULT if fields["bg"] == "-" else decode_color(fields["bg"]),
                            frozenset(a for a in fields["attrs"].split(",") if a))
                got = {(cl[1], cl[2], cl[3]) for cl in cells}
                if got != {want}:
                    why.append(f"--{key}-style {style!r}: the {key} line is painted {sorted(got, key=str)[:2]}, the style denotes {want}")
            if why:
                chk.violation({"property": PID, "shape": "hunk-style", "case": c, "why": "; ".join(why[:3])})
    # ---- black box: the six removed / added line styles (base, emph, non-emph) on a file delta can highlight: every
    #      region of a paired line is painted with its own option's style; a `syntax` foreground means the
    #      highlighter's colour for that character (reference: the same text shown as a context line)
    if not replay or (replay and json.load(open(replay)).get("shape") == "emph-style"):
        r = vlib.case_rng(chk.seed, PID, "emph")
        pool = ["syntax 53", "syntax bold 17", "normal 52", "bold red", "ul 12 #102030", "syntax", "italic blue 22", "syntax ul #203040"]
        EOPTS = ["minus-style", "minus-emph-style", "minus-non-emph-style", "plus-style", "plus-emph-style", "plus-non-emph-style"]
        ecases = [{"styles": {o: r.choice(pool) for o in EOPTS}, "tc": r.choice(["always", "never"])} for _ in range(40 if tier == "quick" else 800)]
        ecases += [{"styles": dict({o: "normal 52" for o in EOPTS}, **{o1: "syntax 53"}), "tc": "always"} for o1 in EOPTS]
        # only some of the six given (the others keep their defaults, which other options may adjust), unified and side-by-side
        for _ in range(30 if tier == "quick" else 600):
            sub = r.sample(EOPTS, r.randint(1, 3))
            ecases.append({"styles": {o: r.choice(pool + ["normal 52", "normal 88 bold"]) for o in sub}, "tc": r.choice(["always", "never"]), "sbs": r.random() < 0.6})
        ecases += [{"styles": {o1: "normal 88"}, "tc": "always", "sbs": True} for o1 in EOPTS]
        if replay:
            ecases = [json.load(open(replay))["case"]]
        OLD, NEW, GONE, CAME = "let alpha = 11;", "let alpha = 22;", "fn gone() {}", "static CAME: u8 = 3;"
        ediff = ["diff --git a/f.rs b/f.rs", "index 1..2 100644", "--- a/f.rs", "+++ b/f.rs", "@@ -1,3 +1,3 @@", " // c", "-" + OLD, "+" + NEW,
                 "@@ -10,2 +10,1 @@", " // d", "-" + GONE, "@@ -20,1 +20,2 @@", " // e", "+" + CAME]
        eref = ["diff --git a/f.rs b/f.rs", "index 1..2 100644", "--- a/f.rs", "+++ b/f.rs", "@@ -1,5 +1,5 @@", " // c", " " + OLD, " " + NEW, " " + GONE, " " + CAME]

        def run_e(tc, extra, lines):
            return vlib.run_delta(["--no-gitconfig", "--paging", "never", "--true-color", tc, "--max-line-distance", "0.9"] + extra,
                                  stdin=("\n".join(lines) + "\n").encode())
        refs = {}
        for tc in ("always", "never"):
            rc, out, _ = run_e(tc, [], eref)
            rws = term.decode(out)
            refs[tc] = {}
            for txt in (OLD, NEW, GONE, CAME):
                hit = [row for row in rws if row.text().rstrip() == txt]
                refs[tc][txt] = [cl[1] for cl in hit[0].cells[:len(txt)]] if len(hit) == 1 else None

        def work_e(c):
            extra = []
            for o, v in c["styles"].items():
                extra += ["--" + o, v]
            return run_e(c["tc"], extra + (["--side-by-side", "--width", "120"] if c.get("sbs") else []), ediff)
        with ThreadPoolExecutor(max_workers=vlib.NCPU) as ex:
            eres = list(ex.map(work_e, ecases))
        for c, (rc, out, err) in zip(ecases, eres):
            chk.case(("emph-style", json.dumps(c, sort_keys=True)), True, c)
            chk.count("blackbox:emph-style")
            if rc != 0:
                chk.violation({"property": PID, "shape": "emph-style", "case": c, "why": f"exit status {rc}"})
                continue
            rows = term.decode(out)
            why = []
            # (line text, [(from, to, option)]) : which option styles which characters
            plan = [(OLD, [(0, 12, "minus-non-emph-style"), (12, 14, "minus-emph-style"), (14, 15, "minus-non-emph-style")]),
                    (NEW, [(0, 12, "plus-non-emph-style"), (12, 14, "plus-emph-style"), (14, 15, "plus-non-emph-style")]),
                    (GONE, [(0, len(GONE), "minus-style")]), (CAME, [(0, len(CAME), "plus-style")])]
            for txt, regions in plan:
                if c.get("sbs"):
                    # side-by-side: the line is one panel of a row; take the cells where its text starts
                    hit = []
                    for row in rows:
                        t_ = row.text()
                        k_ = t_.find(txt)
                        if k_ >= 0:
                            sub_row = term.Row()
                            sub_row.cells = row.cells[k_:k_ + len(txt)]
                            hit.append(sub_row)
                else:
                    hit = [row for row in rows if row.text().rstrip() == txt]
                ref = refs[c["tc"]][txt]
                if len(hit) != 1 or ref is None:
                    why.append(f"line {txt!r} is shown {len(hit)} times")
                    continue
                for a, b, o in regions:
                    if o not in c["styles"]:
                        continue    # not given: the default applies, which is not this clause's business
                    style = c["styles"][o]
                    d = drv.ask("style_parse", vlib.hexs(style), "1" if c["tc"] == "always" else "0")
                    fields = dict(x.split("=") for x in d.split("\t")[1].split(";"))
                    bg = term.DEFAULT if fields["bg"] == "-" else decode_color(fields["bg"])
                    at = frozenset(x for x in fields["attrs"].split(",") if x)
                    for j in range(a, b):
                        cl = hit[0].cells[j]
                        if txt[j] == " " and fields["syntax"] == "1":
                            fg = cl[1]   # the highlighter's colour of a blank is not visible; not compared
                        else:
                            fg = ref[j] if fields["syntax"] == "1" else (term.DEFAULT if fields["fg"] == "-" else decode_color(fields["fg"]))
                        if (cl[1], cl[2], frozenset(cl[3])) != (fg, bg, at):
                            why.append(f"--{o} {style!r}: character {j} ({txt[j]!r}) of {txt!r} is painted fg {cl[1]} bg {cl[2]} attrs {sorted(cl[3])}, "
                                       f"the style denotes fg {'the syntax colour ' if fields['syntax'] == '1' else ''}{fg} bg {bg} attrs {sorted(at)}")
                            break
            if why:
                chk.violation({"property": PID, "shape": "emph-style", "case": c, "why": "; ".join(why[:3])})
    vm.close()
    drv.close()
    return chk.finish()


def decode_color(c):
    k, v = c[0], c[1:]
    if k == "n":
        return ("p", int(v))
    if k == "f":
        return ("p", int(v))
    return ("rgb", int(v[0:2], 16), int(v[2:4], 16), int(v[4:6], 16))
