"""C11 — output is streamed: bounded lag behind the input, never revised.

proof:   PropC11.v — written output is a prefix of the output for the prefix alone and for
         the whole input (all inputs, all prefixes); after a hunk body line, from any state,
         the output buffer is empty and each line buffer holds <= line_buffer_size+1 lines.
tie:     the real binary is fed line by line with stdin held open; after each line the
         harness waits until delta's main thread blocks in read(0) (/proc/<pid>/syscall),
         drains stdout and compares the visible rows so far with the rendering of the
         extracted model's `out` after the same k lines.
oracle:  model-free, on the implementation's bytes: bytes(k) is a prefix of bytes(k+1) and
         of the final output; after a body line every earlier context line is already
         visible and at most B+1 removed and B+1 added lines are still missing.
"""
import json
import os
import subprocess
import sys
import time
from concurrent.futures import ThreadPoolExecutor

import gdiff
import term
import vlib

PID = "C11"


def blocked_in_read0(pid):
    try:
        with open(f"/proc/{pid}/syscall") as f:
            s = f.read()
    except OSError:
        return False
    return s.startswith("0 0x0 ")


def pipe_unread(fd):
    import array
    import fcntl
    import termios
    buf = array.array("i", [0])
    try:
        fcntl.ioctl(fd, termios.FIONREAD, buf)
    except OSError:
        return 0
    return buf[0]


def drain(fd):
    chunks = []
    while True:
        try:
            b = os.read(fd, 65536)
        except BlockingIOError:
            break
        if not b:
            break
        chunks.append(b)
    return b"".join(chunks)


def stream_case(lines, cfg, extra_args=()):
    """returns list of cumulative stdout bytes after each line, and the final bytes"""
    env = vlib.clean_env()
    p = subprocess.Popen([vlib.DELTA] + cfg.args() + list(extra_args), stdin=subprocess.PIPE, stdout=subprocess.PIPE,
                         stderr=subprocess.DEVNULL, env=env, cwd=vlib.empty_cwd())
    os.set_blocking(p.stdout.fileno(), False)
    acc = b""
    snaps = []
    try:
        for l in lines:
            p.stdin.write(l.encode("utf-8") + b"\n")
            p.stdin.flush()
            t0 = time.time()
            stable = 0
            while time.time() - t0 < 5:
                acc += drain(p.stdout.fileno())
                if pipe_unread(p.stdin.fileno()) == 0 and blocked_in_read0(p.pid):
                    stable += 1
                    if stable >= 2:
                        break
                else:
                    stable = 0
                time.sleep(0.0005)
            acc += drain(p.stdout.fileno())
            snaps.append(acc)
        p.stdin.close()
        os.set_blocking(p.stdout.fileno(), True)
        rest = p.stdout.read()
        p.wait(timeout=10)
        return snaps, acc + rest, p.returncode
    finally:
        if p.poll() is None:
            p.kill()


def rows_of(b):
    t = term.strip(b)
    rows = t.split("\n")
    complete = rows[:-1]
    return [x.rstrip(" ") for x in complete], rows[-1]


def tokens_of(d):
    """[(line_index_in_input, kind, token)] for every body line"""
    out = []
    idx = len(d["pre"])
    for s in d["sections"]:
        idx += len(s["head"])
        for h in s["hunks"]:
            idx += 1
            for k, t in h["body"]:
                tok = [w for w in t.replace("\t", " ").split(" ") if w.startswith("T") and w.endswith("q")][0]
                out.append((idx, k, tok))
                idx += 1
            if h["no_newline"]:
                idx += 1
    return out


CONFLICT = ["diff --cc file.txt", "index 1111111,2222222..0000000", "--- a/file.txt", "+++ b/file.txt",
            "@@@ -1,5 -1,5 +1,13 @@@", "  ctx T1q", "++<<<<<<< HEAD", " +ours T2q", " +ours T3q", " +ours T4q",
            "++||||||| base", "++base T5q", "++=======", "+ theirs T6q", "+ theirs T7q", "++>>>>>>> branch", "  ctx T8q"]


def conflict_case(chk):
    cfg = gdiff.Cfg(width=79, tabs=4, line_buffer_size=1)
    snaps, final, rc = stream_case(CONFLICT, cfg)
    chk.case(("conflict", cfg.key()), True, {"corpus": "merge-conflict region", "input": CONFLICT})
    # after the line " +ours T4q" (index 9) three changed lines of the region have been received
    text = term.strip(snaps[9])
    held = [t for t in ("T2q", "T3q", "T4q") if t not in text]
    if rc != 0 or not term.strip(final).count("T8q"):
        chk.violation({"property": PID, "why": f"combined diff with a conflict region: exit {rc} or output incomplete",
                       "shape": "other", "input": "\n".join(CONFLICT)})
    elif len(held) > cfg.B + 1:
        chk.violation({"property": PID, "shape": "merge-conflict-region",
                       "why": f"inside a merge-conflict region {len(held)} lines are held back with line-buffer-size {cfg.B}",
                       "input": "\n".join(CONFLICT), "cfg": cfg.as_dict()})


def gen_cases(tier, seed):
    n = 60 if tier == "quick" else 600
    cases = []
    for i in range(n):
        r = vlib.case_rng(seed, PID, i)
        B = r.choice([0, 1, 2, 2, 32])
        d = gdiff.gen_diff(r, nsec=r.randint(1, 3), run_lens=(1, 2, 3, 5), big=(3 * B + 2 if B < 32 else 40))
        cfg = gdiff.Cfg(width=r.choice([40, 79]), tabs=4, keep_markers=r.random() < 0.3, line_buffer_size=B)
        sbs = r.random() < 0.35
        if sbs:
            cfg.width = 240  # wide panels: a token is never split by wrapping
        cases.append((d, cfg, sbs))
    return cases


def main(tier, replay=None):
    chk = vlib.Check(PID, tier)
    ok, out = vlib.build_delta()
    if not ok:
        print("tree does not build with hooks enabled:\n" + out[-2000:])
        chk.oblige("build:delta-with-hooks", False, out[-2000:])
        return chk.finish()
    vlib.standard_proof_obligations(chk, "PropC11")
    ok, out = vlib.build_vmodel()
    if not ok:
        chk.oblige("build:vmodel", False, out[-2000:])
        return chk.finish()
    vm = vlib.vmodel()
    if replay:
        with open(replay) as f:
            r = json.load(f)
        cases = [(r["diff"], gdiff.Cfg(**r["cfg"]), r.get("side_by_side", False))]
    else:
        cases = gen_cases(tier, chk.seed)
    chk.rule = ("every line-prefix of generated git diffs (runs of removed/added lines up to 3B+2 long; buffer sizes 0,1,2,32), "
                "unified and side-by-side, observed with stdin held open; non-trivial = the prefix ends inside a run of changed lines")

    def work(c):
        d, cfg, sbs = c
        lines = gdiff.diff_lines(d)
        return stream_case(lines, cfg, ["--side-by-side"] if sbs else [])

    with ThreadPoolExecutor(max_workers=8) as ex:
        results = list(ex.map(work, cases))
    mism = 0
    nprefix = 0
    for (d, cfg, sbs), (snaps, final, rc) in zip(cases, results):
        lines = gdiff.diff_lines(d)
        toks = tokens_of(d)
        arg = ",".join(vlib.hexs(l) for l in lines)
        why = []
        if rc != 0:
            why.append(f"exit status {rc}")
        for k in range(1, len(lines) + 1):
            nprefix += 1
            got = snaps[k - 1]
            # never revised
            if not final.startswith(got):
                why.append(f"after {k} lines the bytes written are not a prefix of the final output")
                break
            if k > 1 and not got.startswith(snaps[k - 2]):
                why.append(f"after {k} lines the bytes written do not extend those after {k - 1} lines")
                break
            last_is_body = any(i == k - 1 for i, _, _ in toks)
            in_run = last_is_body and [kk for i, kk, _ in toks if i == k - 1][0] in "-+"
            chk.case((tuple(lines[:k]), cfg.key(), sbs), in_run, {"prefix_len": k, "cfg": cfg.as_dict(), "side_by_side": sbs,
                                                                 "last_line": lines[k - 1]} if in_run else None)
            text = term.strip(got)
            if last_is_body:
                seen = [(i, kk, tok) for i, kk, tok in toks if i < k]
                missing = [(i, kk) for i, kk, tok in seen if tok not in text]
                ctx_missing = [i for i, kk in missing if kk == " "]
                if ctx_missing:
                    why.append(f"after {k} lines, unchanged line(s) {ctx_missing} received earlier are not yet written")
                nm = sum(1 for i, kk in missing if kk == "-")
                npl = sum(1 for i, kk in missing if kk == "+")
                if nm > cfg.B + 1 or npl > cfg.B + 1:
                    why.append(f"after {k} lines, {nm} removed and {npl} added lines are held back (line-buffer-size {cfg.B})")
                # held back lines must be the currently open run
                if missing:
                    first_missing = min(i for i, _ in missing)
                    run_ok = all(kk in "-+" for i, kk, _ in seen if i >= first_missing)
                    if not run_ok:
                        why.append(f"after {k} lines, a line before the open run of changed lines is still held back")
            # correspondence with the model (unified view only)
            if not sbs:
                rep = vm.ask("delta_prefix", 0, cfg.tabs, cfg.B, k, arg)
                items = gdiff.parse_items("OK\t" + rep.split("\t")[1]) if rep.startswith("OK\t") else None
                if items is None:
                    mism += 1
                    continue
                want = gdiff.render_items(items, cfg)
                rows, partial = rows_of(got)
                if rows != want or partial != "":
                    mism += 1
                    if mism <= 2:
                        vlib.log(f"[C11] prefix correspondence mismatch at k={k} {cfg.as_dict()}:\n model={want[-4:]}\n real={rows[-4:]} partial={partial!r}")
            if why:
                break
        if why:
            chk.violation({"property": PID, "why": "; ".join(why[:3]), "cfg": cfg.as_dict(), "side_by_side": sbs, "diff": d,
                           "input": "\n".join(lines)})
    # corpus: a merge-conflict region of a combined diff (known finding F12: held until its end)
    if not replay:
        conflict_case(chk)
    chk.oblige("correspondence:written-after-each-prefix", mism == 0, f"{mism} of {nprefix} prefixes differ from the model's written items")
    chk.extra["traces_validated_against_impl"] = nprefix - mism
    chk.assumptions = ["quiescence = delta's main thread blocked in read(0) twice in a row (/proc/<pid>/syscall)",
                       "merge-conflict regions are held until their end by design (not generated here; see DESIGN F12)"]
    vm.close()
    return chk.finish()
