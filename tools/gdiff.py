"""G-diff: generator of git diffs (as an AST and as text), renderer of model items to the
rows the terminal shows, and the black-box runner used by the structural properties."""
import unicodedata

import term
import vlib

ARROW = "⟶  "
WORDS = ["foo", "bar", "x", "let", "=", "1", ";", "\t", "  ", "-- c", "++d", "@@ z", "\\ w", "日本", "é", "fn", "()", "{",
         "}", "a.b", "->", "commit", "diff", "Binary", "index"]
PATHS = ["a.rs", "dir/b c.txt", "日本.md", "Makefile", "x-y.z", "src/lib.rs", "a/b/x", "w/in.py", "dé/ü.c", "n.txt"]
KINDS = ["mod", "mod", "mod", "add", "del", "ren", "renmod", "copy", "mode", "modemod", "bin", "bin2", "binadd", "empty"]


def wid(t):
    # unicode-width (the version pinned by delta) counts a tab as one column
    return term.text_width(t) + t.count("\t")


class Tok:
    """unique token source so every body line can be found again in the output"""

    def __init__(self):
        self.n = 0

    def next(self):
        self.n += 1
        return "T%dq" % self.n


def gline(r, tok=None, allow_tabs=True):
    parts = []
    for _ in range(r.randint(0, 5)):
        w = r.choice(WORDS)
        if not allow_tabs and w == "\t":
            w = " "
        parts.append(w + r.choice([" ", ""]))
    s = "".join(parts)
    if tok is not None:
        # put the token at a random word boundary
        t = tok.next()
        if r.random() < 0.5:
            s = t + (" " if s and not s.startswith(" ") else "") + s
        else:
            s = s + (" " if s and not s.endswith(" ") else "") + t
    return s


def gen_hunk(r, tok, max_runs=4, run_lens=(1, 1, 2, 3, 5), big=None):
    a = r.choice([1, r.randint(1, 99999), r.randint(100000, 20000000)])
    b = r.choice([1, r.randint(1, 99999), r.randint(100000, 20000000)])
    frag = r.choice(["", " fn f()", " \tx", " class A:", " 日本 {"])
    body = []
    prev = None
    for _ in range(r.randint(1, max_runs)):
        k = r.choice(" -+")
        if k == "-" and prev == "+" and r.random() < 0.7:
            k = " "  # git itself never prints a removed line directly after an added one; other tools do
        n = r.choice(run_lens) if big is None else r.choice(run_lens + (big,))
        for _ in range(n):
            body.append((k, gline(r, tok)))
        prev = k
    na = sum(1 for k, _ in body if k in " -")
    nb = sum(1 for k, _ in body if k in " +")
    style = r.random()
    if style < 0.15:
        hdr = f"@@ -{a} +{b} @@" + frag  # omitted counts
    else:
        hdr = f"@@ -{a},{na} +{b},{nb} @@" + frag
    nonl = r.random() < 0.15
    return {"header": hdr, "old_start": a, "new_start": b, "frag": frag, "body": body, "no_newline": nonl}


def gen_section(r, tok, kind=None, paths=None, **kw):
    kind = kind or r.choice(KINDS)
    paths = paths or PATHS
    p = r.choice(paths)
    q = r.choice([x for x in paths if x != p])
    hunks = []
    if kind == "cc":
        # combined diff of a two-parent merge: two marker columns per line
        hunks = []
        for _ in range(r.randint(1, 2)):
            body = []
            for _ in range(r.randint(1, 6)):
                pre = r.choice(["  ", "  ", "- ", " -", "--", "++", "+ ", " +"])
                body.append((pre, gline(r, tok)))
            o1, o2, n_ = r.randint(1, 900), r.randint(1, 900), r.randint(1, 900)
            frag = r.choice(["", " fn f()", " class A:"])
            c1 = sum(1 for k, _ in body if k[0] in " -")
            c2 = sum(1 for k, _ in body if k[1] in " -")
            c3 = sum(1 for k, _ in body if "-" not in k)
            hunks.append({"header": f"@@@ -{o1},{c1} -{o2},{c2} +{n_},{c3} @@@" + frag, "old_start": o1, "new_start": n_, "frag": frag,
                          "body": body, "no_newline": False, "cc": True})
    if kind == "ccconf":
        # combined diff of a conflicted merge: hunks whose bodies hold ordinary two-column lines and
        # conflict regions (`++<<<<<<<` ... [`++|||||||` ...] `++=======` ... `++>>>>>>>`)
        hunks = []
        for _ in range(r.randint(1, 2)):
            body, items = [], []

            def add(pre, text):
                body.append((pre, text))
                return len(body) - 1
            for _ in range(r.randint(1, 3)):
                for _ in range(r.randint(0, 2)):
                    items.append(("line", add(r.choice(["  ", "  ", "- ", " -", "++", "+ ", " +"]), gline(r, tok))))
                reg = {"begin": add("++", "<<<<<<< " + r.choice(["HEAD", "Updated upstream", "ours"]))}
                reg["ours"] = [add(r.choice([" +", "++"]), gline(r, tok)) for _ in range(r.randint(0, 3))]
                if reg["ours"] and r.random() < 0.15:
                    # a begin marker inside the ours section is an ordinary line of that section
                    reg["ours"].append(add("++", "<<<<<<< nested " + tok.next()))
                if r.random() < 0.6:
                    reg["ancmark"] = add("++", "||||||| " + r.choice(["merged common ancestors", "base", "1234abc"]))
                    reg["anc"] = [add("++", gline(r, tok)) for _ in range(r.randint(0, 3))]
                else:
                    reg["ancmark"], reg["anc"] = None, []
                reg["sep"] = add("++", "=======")
                reg["theirs"] = [add(r.choice(["+ ", "++"]), gline(r, tok)) for _ in range(r.randint(0, 3))]
                reg["end"] = add("++", ">>>>>>> " + r.choice(["topic", "Stashed changes", "theirs"]))
                items.append(("region", reg))
            for _ in range(r.randint(0, 2)):
                items.append(("line", add(r.choice(["  ", "  ", "+ ", " +"]), gline(r, tok))))
            o1, o2, n_ = r.randint(1, 900), r.randint(1, 900), r.randint(1, 900)
            c1 = sum(1 for k, _ in body if k[0] in " -")
            c2 = sum(1 for k, _ in body if k[1] in " -")
            c3 = sum(1 for k, _ in body if "-" not in k)
            hunks.append({"header": f"@@@ -{o1},{c1} -{o2},{c2} +{n_},{c3} @@@", "old_start": o1, "new_start": n_, "frag": "",
                          "body": body, "items": items, "no_newline": False, "cc": True})
    if kind in ("sub", "subadd", "subdel"):
        # a submodule pointer change (diff.submodule = short): `[-+]Subproject commit <sha>[-dirty]`
        sha1, sha2 = "%040x" % r.getrandbits(160), "%040x" % r.getrandbits(160)
        dirty = "-dirty" if r.random() < 0.3 else ""
        if kind == "sub":
            body, hdr = [("-", "Subproject commit " + sha1), ("+", "Subproject commit " + sha2 + dirty)], "@@ -1 +1 @@"
        elif kind == "subadd":
            body, hdr = [("+", "Subproject commit " + sha2 + dirty)], "@@ -0,0 +1 @@"
        else:
            body, hdr = [("-", "Subproject commit " + sha1)], "@@ -1 +0,0 @@"
        hunks = [{"header": hdr, "old_start": 1, "new_start": 1, "frag": "", "body": body, "no_newline": False}]
    if kind == "subnear":
        # an ordinary file whose lines merely look like submodule lines
        hunks = [gen_hunk(r, tok, **kw) for _ in range(r.randint(1, 2))]
        for h in hunks:
            body = list(h["body"])
            k0, t0 = body[0]
            if k0 in "-+":
                body[0] = (k0, "Subproject commit " + r.choice(["is a thing ", "1234abc ", "", "%040x extra " % r.getrandbits(160)]) + tok.next())
            if len(body) > 1:
                j = r.randrange(1, len(body))
                if body[j][0] in "-+":
                    body[j] = (body[j][0], "Subproject commit " + "%040x" % r.getrandbits(160))
            h["body"] = body
    if kind == "diffu":
        # plain `diff -u` output: no `diff --git` line; removed / added lines may themselves begin with
        # "-- " / "++ " (SQL, Lua, Haskell comments), which makes them look like file header lines
        hunks = [gen_hunk(r, tok, **kw) for _ in range(r.randint(1, 3))]
        for h in hunks:
            h["body"] = [(k, (r.choice(["-- ", "-- ", "++ "]) + t) if (k in "-+" and r.random() < 0.35) else t) for k, t in h["body"]]
            # `diff` always prints the true line counts (delta relies on them to tell a removed "-- x" line from a header)
            na = sum(1 for k, _ in h["body"] if k in " -")
            nb = sum(1 for k, _ in h["body"] if k in " +")
            h["header"] = f"@@ -{h['old_start']},{na} +{h['new_start']},{nb} @@" + h["frag"]
    if kind in ("mod", "add", "del", "renmod", "modemod"):
        hunks = [gen_hunk(r, tok, **kw) for _ in range(r.randint(1, 3))]
        if kind in ("add", "del"):
            # an added file has only added lines, a deleted file only removed lines
            only = "+" if kind == "add" else "-"
            for h in hunks:
                h["body"] = [(only, t) for _, t in h["body"]]
                n_ = len(h["body"])
                if kind == "add":
                    h["header"] = f"@@ -0,0 +1,{n_} @@" + h["frag"]
                    h["old_start"], h["new_start"] = 0, 1
                else:
                    h["header"] = f"@@ -1,{n_} +0,0 @@" + h["frag"]
                    h["old_start"], h["new_start"] = 1, 0
            hunks = hunks[:1]
    return make_section("mod" if kind == "subnear" else kind, p, q, hunks)


def make_section(kind, p, q, hunks):
    head = []
    old, new = p, p
    if kind == "mod":
        head = [f"diff --git a/{p} b/{p}", "index 1111111..2222222 100644", f"--- a/{p}", f"+++ b/{p}"]
    elif kind == "add":
        head = [f"diff --git a/{p} b/{p}", "new file mode 100644", "index 0000000..2222222", "--- /dev/null", f"+++ b/{p}"]
        old = "/dev/null"
    elif kind == "del":
        head = [f"diff --git a/{p} b/{p}", "deleted file mode 100644", "index 1111111..0000000", f"--- a/{p}", "+++ /dev/null"]
        new = "/dev/null"
    elif kind == "ren":
        head = [f"diff --git a/{p} b/{q}", "similarity index 100%", f"rename from {p}", f"rename to {q}"]
        new = q
    elif kind == "renmod":
        head = [f"diff --git a/{p} b/{q}", "similarity index 90%", f"rename from {p}", f"rename to {q}",
                "index 1111111..2222222 100644", f"--- a/{p}", f"+++ b/{q}"]
        new = q
    elif kind == "copy":
        head = [f"diff --git a/{p} b/{q}", "similarity index 100%", f"copy from {p}", f"copy to {q}"]
        new = q
    elif kind == "mode":
        head = [f"diff --git a/{p} b/{p}", "old mode 100644", "new mode 100755"]
    elif kind == "modemod":
        head = [f"diff --git a/{p} b/{p}", "old mode 100755", "new mode 100644", "index 1111111..2222222", f"--- a/{p}", f"+++ b/{p}"]
    elif kind == "bin":
        head = [f"diff --git a/{p} b/{p}", "index 1111111..2222222 100644", f"Binary files a/{p} and b/{p} differ"]
    elif kind == "bin2":
        head = [f"diff --git a/{p} b/{q}", "index 1111111..2222222 100644", f"Binary files a/{p} and b/{q} differ"]
        new = q
    elif kind == "binadd":
        head = [f"diff --git a/{p} b/{p}", "new file mode 100644", "index 0000000..2222222", f"Binary files /dev/null and b/{p} differ"]
        old = "/dev/null"
    elif kind == "empty":
        head = [f"diff --git a/{p} b/{p}", "new file mode 100644", "index 0000000..e69de29"]
        old = "/dev/null"
    elif kind == "sub":
        head = [f"diff --git a/{p} b/{p}", "index 1111111..2222222 160000", f"--- a/{p}", f"+++ b/{p}"]
    elif kind == "subadd":
        head = [f"diff --git a/{p} b/{p}", "new file mode 160000", "index 0000000..2222222", "--- /dev/null", f"+++ b/{p}"]
        old = "/dev/null"
    elif kind == "subdel":
        head = [f"diff --git a/{p} b/{p}", "deleted file mode 160000", "index 1111111..0000000", f"--- a/{p}", "+++ /dev/null"]
        new = "/dev/null"
    elif kind in ("cc", "ccconf"):
        head = [f"diff --cc {p}", "index 1111111,2222222..3333333", f"--- a/{p}", f"+++ b/{p}"]
    elif kind == "diffu":
        head = [f"--- a/{p}\t2020-01-01 00:00:00.000000000 +0000", f"+++ b/{p}\t2020-01-02 00:00:00.000000000 +0000"]
        old, new = "a/" + p, "b/" + p
    return {"kind": kind, "old": old, "new": new, "head": head, "hunks": hunks}


def section_lines(sec):
    out = list(sec.get("pre", [])) + list(sec["head"])
    for h in sec["hunks"]:
        out.append(h["header"])
        out += [k + t for k, t in h["body"]]
        if h["no_newline"]:
            out.append("\\ No newline at end of file")
    return out


def gen_log_wrapper(r):
    out = ["commit " + "%040x" % r.getrandbits(160), "Author: A U Thor <a@example.com>", "Date:   Thu Jan 1 00:00:00 1970 +0000", "",
           "    " + gline(r, allow_tabs=False), ""]
    if r.random() < 0.5:
        out += [" f.rs | 2 +-", " 1 file changed, 1 insertion(+), 1 deletion(-)", ""]
    return out


def gen_diff(r, nsec=None, log=None, tok=None, **kw):
    tok = tok or Tok()
    secs = [gen_section(r, tok, **kw) for _ in range(nsec or r.randint(1, 4))]
    pre = gen_log_wrapper(r) if (log if log is not None else r.random() < 0.4) else []
    return {"pre": pre, "sections": secs}


def diff_lines(d):
    out = list(d["pre"])
    for s in d["sections"]:
        out += section_lines(s)
    return out


# ----------------------------------------------------------------- rendering of model items
class Cfg:
    def __init__(self, width=40, tabs=8, keep_markers=False, color_only=False, line_buffer_size=32):
        self.width, self.tabs, self.color_only, self.B = width, tabs, color_only, line_buffer_size
        self.keep = keep_markers or color_only

    def args(self):
        a = ["--no-gitconfig", "--paging", "never", "--syntax-theme", "none", "--width", str(self.width),
             "--tabs", str(self.tabs), "--line-buffer-size", str(self.B)]
        if self.keep and not self.color_only:
            a.append("--keep-plus-minus-markers")
        if self.color_only:
            a.append("--color-only")
        return a

    def key(self):
        return (self.width, self.tabs, self.keep, self.color_only, self.B)

    def as_dict(self):
        return {"width": self.width, "tabs": self.tabs, "keep_markers": self.keep, "color_only": self.color_only,
                "line_buffer_size": self.B}


def rand_cfg(r, color_only=None):
    co = (r.random() < 0.3) if color_only is None else color_only
    return Cfg(width=r.choice([20, 40, 79]), tabs=r.choice([0, 1, 4, 8]), keep_markers=r.random() < 0.3, color_only=co,
               line_buffer_size=r.choice([0, 1, 2, 32]))


def parse_items(reply):
    """vmodel reply -> list of (idx, kind, fields...)"""
    assert reply.startswith("OK\t"), reply
    body = reply.split("\t")[1]
    items = []
    if not body:
        return items
    for ent in body.split(";"):
        f = ent.split(":")
        idx = int(f[0])
        k = f[1]
        if k == "R":
            items.append((idx, "R", bytes.fromhex(f[2]).decode("utf-8", "replace")))
        elif k == "F":
            items.append((idx, "F", bytes.fromhex(f[2]).decode("utf-8", "replace"), bytes.fromhex(f[3]).decode("utf-8", "replace")))
        elif k == "H":
            items.append((idx, "H", bytes.fromhex(f[2]).decode("utf-8", "replace"), int(f[3]), bytes.fromhex(f[4]).decode("utf-8", "replace")))
        elif k == "L":
            items.append((idx, "L", f[2], bytes.fromhex(f[3]).decode("utf-8", "replace")))
    return items


def expand(t, cfg):
    return t.replace("\t", " " * cfg.tabs) if cfg.tabs > 0 else t


def render_item(it, cfg):
    k = it[1]
    if k == "R":
        return [it[2]]
    if k == "F":
        t, mode = it[2], it[3]
        if cfg.color_only:
            return [t]
        tw = wid(t)
        if mode:
            t = t + " (" + mode + ")"
        return ["", t, "─" * max(cfg.width, tw)]
    if k == "H":
        frag, n, raw = it[2], it[3], it[4]
        if cfg.color_only:
            return [raw]
        text = (frag + " ") if frag else ""
        mid = f"{n}:" + (" " if not text else "") + expand(text, cfg)
        return ["", "─" * wid(mid) + "┐", mid + "│", "─" * wid(mid) + "┘"]
    if k == "L":
        mk = {"-": "-", "+": "+", "0": " ", "o": ""}[it[2]] if cfg.keep else ""
        return [mk + it[3]]
    raise ValueError(it)


def render_items(items, cfg):
    rows = []
    for it in items:
        rows += render_item(it, cfg)
    return [x.rstrip(" ") for x in rows]


def model_items(vm, lines, cfg):
    arg = ",".join(vlib.hexs(l) for l in lines)
    return parse_items(vm.ask("delta_run", 1 if cfg.color_only else 0, cfg.tabs, cfg.B, arg))


def run_real(lines, cfg, extra_args=(), raw=False, timeout=20):
    inp = ("\n".join(lines) + "\n").encode("utf-8", "surrogateescape") if lines else b""
    rc, out, err = vlib.run_delta(cfg.args() + list(extra_args), stdin=inp, timeout=timeout)
    if raw:
        return rc, out, err
    if rc != 0:
        return rc, ["<<rc=%s %s>>" % (rc, err[:300].decode("utf-8", "replace"))], err
    rows = term.strip(out).split("\n")
    return rc, [x.rstrip(" ") for x in rows[:-1]], err
