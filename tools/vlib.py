"""Shared machinery of the checks: builds, Coq audit, model/implementation runners,
evidence, violations, known findings."""
import fcntl
import hashlib
import json
import os
import random
import re
import shutil
import subprocess
import sys
import time

VERIF = os.path.dirname(os.path.dirname(os.path.abspath(__file__)))
# heavy build products are shared between /verif and `vp run` snapshots
CACHE = os.environ.get("VERIF_CACHE", "/verif/.cache" if os.path.isdir("/verif") else os.path.join(VERIF, ".cache"))
REPO = os.environ.get("VERIF_REPO", "/repo")
COQ = os.path.join(VERIF, "coq")
TARGET = os.path.join(CACHE, "target")
DELTA = os.path.join(TARGET, "debug", "delta")
EXTRACT = os.path.join(CACHE, "extract")
VMODEL = os.path.join(EXTRACT, "vmodel")
BIN = os.path.join(CACHE, "bin")
GITWRAP = os.path.join(BIN, "gitwrap")
GUARD = "dandavison_delta_verif"
NCPU = os.cpu_count() or 4

sys.path.insert(0, os.path.join(VERIF, "tools"))


def log(*a):
    print(*a, file=sys.stderr, flush=True)


class Lock:
    def __init__(self, name):
        os.makedirs(CACHE, exist_ok=True)
        self.path = os.path.join(CACHE, name + ".lock")

    def __enter__(self):
        self.f = open(self.path, "w")
        fcntl.flock(self.f, fcntl.LOCK_EX)
        return self

    def __exit__(self, *a):
        fcntl.flock(self.f, fcntl.LOCK_UN)
        self.f.close()


def sh(cmd, timeout=1200, cwd=None, env=None, input=None):
    p = subprocess.run(cmd, shell=isinstance(cmd, str), cwd=cwd, env=env, input=input,
                       stdout=subprocess.PIPE, stderr=subprocess.STDOUT, timeout=timeout)
    return p.returncode, p.stdout.decode("utf-8", "replace")


# ----------------------------------------------------------------------------- builds
def cargo_env():
    env = dict(os.environ)
    env["CARGO_NET_OFFLINE"] = "true"
    env.pop("RUSTFLAGS", None)
    return env


def tree_hash():
    h = hashlib.sha256()
    paths = [os.path.join(REPO, "Cargo.toml"), os.path.join(REPO, "Cargo.lock"), os.path.join(REPO, "build.rs")]
    for root, dirs, files in os.walk(os.path.join(REPO, "src")):
        dirs.sort()
        for f in sorted(files):
            paths.append(os.path.join(root, f))
    for p in paths:
        if os.path.exists(p):
            h.update(p.encode())
            with open(p, "rb") as f:
                h.update(f.read())
    return h.hexdigest()


def build_delta():
    """(ok, log): build the hook-enabled binary from /repo's current working tree."""
    with Lock("cargo"):
        # cargo decides freshness by mtime; a tree restored with old mtimes must still rebuild
        th = tree_hash()
        stamp = os.path.join(CACHE, "built_tree_hash")
        old = open(stamp).read().strip() if os.path.exists(stamp) else ""
        if old != th:
            os.utime(os.path.join(REPO, "src", "main.rs"), None)
            if os.path.exists(stamp):
                os.unlink(stamp)
        rc, out = sh(["cargo", "rustc", "--offline", "--bin", "delta", "--target-dir", TARGET,
                      "--", "--cfg", GUARD], cwd=REPO, env=cargo_env(), timeout=3000)
        if rc == 0 and os.path.exists(DELTA):
            with open(stamp, "w") as f:
                f.write(th)
    return rc == 0 and os.path.exists(DELTA), out


STUB_NAMES = ("less", "more", "most", "bat", "mypager", "lesser", "git", "rg", "diff")


def build_native():
    os.makedirs(BIN, exist_ok=True)
    with Lock("native"):
        for name in ("gitwrap",):
            src = os.path.join(VERIF, "native", name + ".c")
            dst = os.path.join(BIN, name)
            if not os.path.exists(dst) or os.path.getmtime(dst) < os.path.getmtime(src):
                rc, out = sh(["gcc", "-O1", "-o", dst, src])
                if rc != 0:
                    raise RuntimeError("native build failed: " + out)
        # stub executables (pagers and producers) for C18, one binary under several names
        stub_src = os.path.join(VERIF, "native", "stub.c")
        if os.path.exists(stub_src):
            sdir = os.path.join(CACHE, "stubs")
            os.makedirs(sdir, exist_ok=True)
            stub = os.path.join(BIN, "stub")
            if not os.path.exists(stub) or os.path.getmtime(stub) < os.path.getmtime(stub_src):
                rc, out = sh(["gcc", "-O1", "-o", stub, stub_src])
                if rc != 0:
                    raise RuntimeError("native build failed: " + out)
            for nm in STUB_NAMES:
                d = os.path.join(sdir, nm)
                if not os.path.exists(d) or os.path.getmtime(d) < os.path.getmtime(stub):
                    shutil.copy(stub, d)
        shim = os.path.join(VERIF, "native", "epipe_shim.c")
        dst = os.path.join(BIN, "epipe_shim.so")
        if os.path.exists(shim) and (not os.path.exists(dst) or os.path.getmtime(dst) < os.path.getmtime(shim)):
            rc, out = sh(["gcc", "-O1", "-shared", "-fPIC", "-o", dst, shim, "-ldl"])
            if rc != 0:
                raise RuntimeError("native build failed: " + out)


def translate(which=None):
    import translate as tr
    with Lock("coq"):
        return tr.run(which)


def coq_make(targets, timeout=3000):
    """(ok, log) — full .vo build of the given targets (paths relative to coq/)."""
    with Lock("coq"):
        mk = os.path.join(COQ, "Makefile.coq")
        proj = os.path.join(COQ, "_CoqProject")
        if not os.path.exists(mk) or os.path.getmtime(mk) < os.path.getmtime(proj):
            rc, out = sh(["coq_makefile", "-f", "_CoqProject", "-o", "Makefile.coq"], cwd=COQ)
            if rc != 0:
                return False, out
        rc, out = sh(["timeout", str(timeout), "make", "-f", "Makefile.coq", f"-j{NCPU}"] + list(targets),
                     cwd=COQ, timeout=timeout + 30)
    return rc == 0, out


def theorem_names(prop_file):
    """names of Theorem/Lemma/Example statements in a Props file, in order"""
    with open(os.path.join(COQ, "theories", prop_file)) as f:
        text = f.read()
    return re.findall(r"^(?:Theorem|Lemma|Example|Corollary)\s+([A-Za-z0-9_']+)", text, re.M)


STD_AXIOM_ALLOW = set()  # none needed so far; add standard-library axioms by name if ever used


def coq_audit(prop_module, names):
    """Print Assumptions for each theorem, through a fresh coqc run on the compiled .vo.
    returns {name: "closed" | [axioms...] | "missing"}"""
    d = os.path.join(CACHE, "audit")
    os.makedirs(d, exist_ok=True)
    path = os.path.join(d, f"Audit_{prop_module}.v")
    with open(path, "w") as f:
        f.write(f"From DV Require Import {prop_module}.\n")
        for n in names:
            f.write(f'Goal True. idtac "@@BEGIN {n}". exact I. Qed.\nPrint Assumptions {n}.\n')
        f.write('Goal True. idtac "@@END". exact I. Qed.\n')
    rc, out = sh(["coqc", "-noglob", "-Q", os.path.join(COQ, "theories"), "DV", path], timeout=600)
    res = {}
    if rc != 0:
        return {n: "missing" for n in names}, out
    chunks = re.split(r"@@BEGIN (\S+)\n", out)
    for i in range(1, len(chunks), 2):
        name, body = chunks[i], chunks[i + 1].split("@@END")[0]
        if "Closed under the global context" in body:
            res[name] = "closed"
        else:
            axs = re.findall(r"^([A-Za-z0-9_.']+)\s*:", body, re.M)
            res[name] = axs or ["?unparsed"]
    for n in names:
        res.setdefault(n, "missing")
    return res, out


FORBIDDEN = re.compile(
    r"\b(Admitted|admit|Axiom|Axioms|Parameter|Parameters|Conjecture|Conjectures|Admit Obligations|"
    r"Unset Guard Checking|Unset Positivity Checking|Unset Universe Checking|bypass_check|"
    r"type-in-type|impredicative-set)\b")


def coq_forbidden_scan():
    """list of (file, line, text) of forbidden vernacular in the development (comments stripped);
    Variable/Hypothesis are allowed only inside a Section."""
    hits = []
    tdir = os.path.join(COQ, "theories")
    files = [os.path.join(tdir, f) for f in sorted(os.listdir(tdir)) if f.endswith(".v")]
    files.append(os.path.join(COQ, "extract", "Extract.v"))
    files.append(os.path.join(COQ, "_CoqProject"))
    for p in files:
        with open(p) as f:
            text = f.read()
        # strip comments (nested)
        out, depth, i = [], 0, 0
        while i < len(text):
            if text.startswith("(*", i):
                depth += 1
                i += 2
            elif text.startswith("*)", i) and depth > 0:
                depth -= 1
                i += 2
            else:
                if depth == 0 or text[i] == "\n":
                    out.append(text[i])
                i += 1
        clean = "".join(out)
        sec = 0
        for ln, line in enumerate(clean.split("\n"), 1):
            if re.match(r"\s*Section\b", line):
                sec += 1
            if re.match(r"\s*End\b", line) and sec > 0:
                sec -= 1
            if FORBIDDEN.search(line):
                hits.append((os.path.basename(p), ln, line.strip()))
            if sec == 0 and re.match(r"\s*(Variable|Variables|Hypothesis|Hypotheses|Context)\b", line):
                hits.append((os.path.basename(p), ln, line.strip()))
    return hits


def build_vmodel():
    """extract the models and build the OCaml driver; (ok, log)"""
    with Lock("coq"):
        os.makedirs(EXTRACT, exist_ok=True)
        srcs = [os.path.join(COQ, "extract", "Extract.v"), os.path.join(VERIF, "ocaml", "driver.ml")]
        tdir = os.path.join(COQ, "theories")
        dep_m = max([os.path.getmtime(s) for s in srcs] +
                    [os.path.getmtime(os.path.join(tdir, f)) for f in os.listdir(tdir) if f.endswith(".vo")])
        if os.path.exists(VMODEL) and os.path.getmtime(VMODEL) >= dep_m:
            return True, "cached"
        for f in os.listdir(EXTRACT):
            if f.endswith((".ml", ".mli", ".cmi", ".cmx", ".o")):
                os.unlink(os.path.join(EXTRACT, f))
        rc, out = sh(["coqc", "-noglob", "-Q", tdir, "DV", os.path.join(COQ, "extract", "Extract.v")],
                     cwd=EXTRACT, timeout=900)
        if rc != 0:
            return False, out
        shutil.copy(os.path.join(VERIF, "ocaml", "driver.ml"), os.path.join(EXTRACT, "driver.ml"))
        mls = [f for f in os.listdir(EXTRACT) if f.endswith((".ml", ".mli"))]
        rc, order = sh(["ocamlfind", "ocamldep", "-sort"] + mls, cwd=EXTRACT)
        if rc != 0:
            return False, out + order
        rc, out2 = sh(["ocamlfind", "ocamlopt", "-inline", "20", "-package", "str", "-linkpkg", "-w", "-a"] +
                      order.split() + ["-o", "vmodel.tmp"], cwd=EXTRACT, timeout=900)
        if rc != 0:
            return False, out + out2
        os.replace(os.path.join(EXTRACT, "vmodel.tmp"), VMODEL)
    return True, out + out2


class LineProc:
    """a line-protocol co-process (vmodel, or the hooked delta in driver mode)"""

    def __init__(self, argv, env=None):
        self.argv, self.env = argv, env
        self.start()

    timeout = 30

    def start(self):
        self.p = subprocess.Popen(self.argv, stdin=subprocess.PIPE, stdout=subprocess.PIPE,
                                  stderr=subprocess.DEVNULL, env=self.env, bufsize=0)
        self._buf = b""

    def _readline(self, timeout):
        import select
        import time
        deadline = time.time() + timeout
        fd = self.p.stdout.fileno()
        while b"\n" not in self._buf:
            left = deadline - time.time()
            if left <= 0:
                return None
            rd, _, _ = select.select([fd], [], [], left)
            if not rd:
                return None
            chunk = os.read(fd, 65536)
            if not chunk:
                r, self._buf = self._buf, b""
                return r
            self._buf += chunk
        r, self._buf = self._buf.split(b"\n", 1)
        return r + b"\n"

    def ask(self, *fields):
        line = "\t".join(str(f) for f in fields) + "\n"
        try:
            self.p.stdin.write(line.encode())
            self.p.stdin.flush()
            r = self._readline(self.timeout)
        except BrokenPipeError:
            r = b""
        if r is None:
            # no reply in time: the co-process hangs (or allocates without bound)
            self.p.kill()
            self.p.wait()
            self.start()
            return "TIMEOUT"
        if not r:
            # co-process died (abort, stack overflow, ...): report and restart
            rc = self.p.wait()
            self.start()
            return f"DIED\t{rc}"
        return r.decode("utf-8", "replace").rstrip("\n")

    def ask_many(self, requests):
        return [self.ask(*r) for r in requests]

    def close(self):
        try:
            self.p.stdin.close()
            self.p.wait(timeout=5)
        except Exception:
            self.p.kill()


def vmodel():
    return LineProc([VMODEL])


def clean_env(extra=None):
    home = os.path.join(CACHE, "home")
    os.makedirs(home, exist_ok=True)
    env = {"PATH": "/usr/bin:/bin", "HOME": home, "GIT_CONFIG_NOSYSTEM": "1", "GIT_CONFIG_GLOBAL": "/dev/null",
           "LANG": "C.UTF-8", "LC_ALL": "C.UTF-8", "TERM": "xterm-256color"}
    if extra:
        env.update(extra)
    return env


def delta_driver():
    return LineProc([DELTA], env=clean_env({"DELTA_VERIF": "driver"}))


def hexs(s):
    if isinstance(s, str):
        s = s.encode("utf-8")
    return s.hex()


def unhex(s):
    return bytes.fromhex(s)


def empty_cwd():
    d = os.path.join(CACHE, "emptycwd")
    os.makedirs(d, exist_ok=True)
    return d


def run_delta(args, stdin=b"", env_extra=None, parent=("git", "verif-harness"), timeout=20, cwd=None, pass_fds=()):
    """run the hooked binary as a child of a fake `git verif-harness` parent (so that its
    calling-process detection answers None at once, deterministically).
    returns (returncode or 'timeout', stdout bytes, stderr bytes)"""
    env = clean_env(env_extra)
    cwd = cwd or empty_cwd()
    if parent:
        env["GITWRAP_ARGV"] = "\x1f".join([DELTA] + list(args))
        argv = list(parent)
        exe = GITWRAP
    else:
        argv = [DELTA] + list(args)
        exe = DELTA
    try:
        p = subprocess.run(argv, executable=exe, input=stdin, stdout=subprocess.PIPE, stderr=subprocess.PIPE,
                           env=env, cwd=cwd, timeout=timeout, pass_fds=pass_fds)
        return p.returncode, p.stdout, p.stderr
    except subprocess.TimeoutExpired as e:
        return "timeout", e.stdout or b"", e.stderr or b""


# ----------------------------------------------------------------------------- reporting
def seed_from_env():
    try:
        return int(os.environ.get("VERIF_SEED", "0"))
    except ValueError:
        return 0


def case_rng(seed, pid, i):
    h = hashlib.sha256(f"{seed}:{pid}:{i}".encode()).digest()
    return random.Random(int.from_bytes(h[:8], "big"))


def load_known_findings():
    p = os.path.join(VERIF, "known_findings.json")
    if not os.path.exists(p):
        return []
    with open(p) as f:
        return json.load(f).get("findings", [])


class Check:
    """bookkeeping of one check run: obligations, explored cases, violations, evidence."""

    def __init__(self, pid, tier, level="proof"):
        self.pid, self.tier, self.level = pid, tier, level
        self.seed = seed_from_env()
        self.t0 = time.time()
        # stale replay files of earlier runs of this check would only confuse
        rdir = os.path.join(VERIF, "replays")
        if os.path.isdir(rdir):
            for f in os.listdir(rdir):
                if f.startswith(pid + "-"):
                    try:
                        os.unlink(os.path.join(rdir, f))
                    except OSError:
                        pass
        self.obligations = []     # (name, ok, detail)
        self.evaluations = 0
        self.distinct = set()
        self.samples = []
        self.extra = {}
        self.violations = []      # replay dicts
        self.known_hits = []
        self.broken = []          # names of proof obligations / ties that no longer check
        self.trusted_base = []
        self.assumptions = []
        self.rule = ""
        self.checker_cmd = ""
        self.dist = {}

    # -- obligations
    def oblige(self, name, ok, detail=""):
        self.obligations.append((name, bool(ok), detail))
        if not ok:
            self.broken.append(name)
            log(f"[{self.pid}] obligation FAILED: {name} {detail[:300]}")

    # -- cases
    def case(self, key, nontrivial=True, sample=None):
        self.evaluations += 1
        if nontrivial:
            h = hashlib.sha1(repr(key).encode()).hexdigest()
            if h not in self.distinct:
                self.distinct.add(h)
                if sample is not None and len(self.samples) < 5:
                    self.samples.append(sample)

    def count(self, k, n=1):
        self.dist[k] = self.dist.get(k, 0) + n

    # -- violations
    def violation(self, replay, known_matchers=None):
        """replay: dict describing the failing input. Returns True when it is a known finding."""
        for kf in load_known_findings():
            if kf.get("property") == self.pid and kf.get("status") == "known":
                if match_finding(kf.get("match", {}), replay):
                    if kf["what"] not in [k["what"] for k in self.known_hits]:
                        self.known_hits.append(kf)
                    return True
        self.violations.append(replay)
        if os.environ.get("VERIF_DEBUG"):
            log(f"[{self.pid}] violation: {str(replay.get('why'))[:260]}")
        return False

    def finish(self):
        """write evidence, print verdict lines, return exit code"""
        os.makedirs(os.path.join(VERIF, "evidence"), exist_ok=True)
        os.makedirs(os.path.join(VERIF, "replays"), exist_ok=True)
        wall = time.time() - self.t0
        n_ob = len(self.obligations)
        n_ok = sum(1 for o in self.obligations if o[1])
        cov = {
            "obligations": n_ob, "discharged": n_ok,
            "checker_cmd": self.checker_cmd or f"bin/check {self.pid} --tier {self.tier}",
            "trusted_base": self.trusted_base,
            "evaluations": self.evaluations, "distinct_nontrivial": len(self.distinct),
            "rule": self.rule, "samples": self.samples[:5],
            "obligation_list": [{"name": n, "ok": ok, "detail": d[:200]} for n, ok, d in self.obligations],
            "input_distribution": self.dist,
        }
        cov.update(self.extra)
        level = self.level
        if level == "proof" and (n_ob == 0 or n_ok != n_ob):
            # the proof level requires all obligations discharged; say so rather than claim it
            cov["explanation"] = "some proof obligations did not check on this run; see obligation_list"
        ev = {"property_id": self.pid, "tier": self.tier, "seed": self.seed, "level": level, "coverage": cov,
              "assumptions": self.assumptions, "wall_s": round(wall, 2),
              "violations": len(self.violations) + (1 if self.broken and not self.violations else 0)}
        with open(os.path.join(VERIF, "evidence", f"{self.pid}.json"), "w") as f:
            json.dump(ev, f, indent=1, default=str)
        for kf in self.known_hits:
            print(f"KNOWN-FINDING: property={self.pid} {kf['what']}")
        rc = 0
        if self.violations:
            for i, r in enumerate(self.violations[:3]):
                path = os.path.join(VERIF, "replays", f"{self.pid}-{self.seed}-{i}.json")
                r = dict(r)
                r["broken_obligations"] = self.broken
                with open(path, "w") as f:
                    json.dump(r, f, indent=1, default=str)
                print(f"VIOLATION property={self.pid} replay={path}")
            rc = 1
        elif self.broken:
            path = os.path.join(VERIF, "replays", f"{self.pid}-{self.seed}-unproved.json")
            with open(path, "w") as f:
                json.dump({"property": self.pid, "no_failing_input_found": True,
                           "no_longer_checks": self.broken,
                           "details": [{"name": n, "detail": d[:2000]} for n, ok, d in self.obligations if not ok],
                           "searched": {"evaluations": self.evaluations}}, f, indent=1, default=str)
            print(f"VIOLATION property={self.pid} replay={path} no-failing-input-found")
            rc = 1
        log(f"[{self.pid}] {self.tier}: obligations {n_ok}/{n_ob}, cases {self.evaluations} "
            f"({len(self.distinct)} distinct non-trivial), violations {len(self.violations)}, "
            f"known {len(self.known_hits)}, {wall:.1f}s")
        return rc


def match_finding(match, replay):
    """a known-finding matcher: every key of `match` must agree with the replay
    (string: substring/regex search in the replay's value; list: any element)."""
    for k, want in match.items():
        have = replay.get(k)
        if have is None:
            return False
        have_s = have if isinstance(have, str) else json.dumps(have, default=str)
        if isinstance(want, (list, tuple)):
            if not any(re.search(w, have_s) for w in want):
                return False
        elif isinstance(want, str):
            if not re.search(want, have_s):
                return False
        elif want != have:
            return False
    return True


def standard_proof_obligations(chk, prop_module, gen_names=(), extra_targets=()):
    """translate -> make -> audit; fills chk.obligations. Returns dict with translate info."""
    chk.trusted_base = [
        "Coq 8.16.1 kernel (incl. vm_compute); no native_compute",
        "axioms: none (every property theorem must print 'Closed under the global context')",
        "tools/translate.py + tools/rustsrc.py (source patterns)",
        "extraction: ExtrOcamlBasic directives only; ocaml/driver.ml; OCaml 4.13.1",
        "correspondence harness (tools/*.py), src/verif_hooks.rs driver, native/gitwrap.c",
        "the Coq development models the Rust code; only translator-extracted facts are read from the source",
    ]
    tinfo = translate(list(gen_names) or None) if gen_names else {}
    for g, info in tinfo.items():
        chk.oblige(f"translate:{g}", "error" not in info, info.get("error", ""))
    ok, out = coq_make([f"theories/{prop_module}.vo"] + list(extra_targets))
    chk.oblige(f"coq-build:{prop_module}", ok, out[-3000:] if not ok else "")
    names = theorem_names(prop_module + ".v")
    if ok:
        res, raw = coq_audit(prop_module, names)
        for n in names:
            r = res.get(n)
            good = r == "closed" or (isinstance(r, list) and all(a in STD_AXIOM_ALLOW for a in r))
            chk.oblige(f"theorem:{n}", good, "" if good else f"assumptions: {r}")
    else:
        # which statements fail? compile what we can, theorem by theorem, is not possible with
        # a monolithic file; record them all as not checked
        for n in names:
            chk.oblige(f"theorem:{n}", False, "file does not compile")
    if ok and chk.tier == "thorough":
        # second opinion: the independent checker re-checks the compiled file and everything it
        # depends on, and lists the axioms of the whole context
        rc, out2 = sh(["coqchk", "-silent", "-o", "-Q", os.path.join(COQ, "theories"), "DV", "DV." + prop_module], cwd=COQ, timeout=3000)
        good = rc == 0 and "* Axioms: <none>" in out2 and "type-in-type: <none>" in out2 and "unsafe (co)fixpoints: <none>" in out2 \
            and "positivity is assumed: <none>" in out2
        chk.oblige(f"coqchk:{prop_module}", good, "" if good else out2[-1500:])
    hits = coq_forbidden_scan()
    chk.oblige("no-admitted-axiom-scan", not hits, "; ".join(f"{f}:{l}: {t}" for f, l, t in hits[:5]))
    chk.checker_cmd = (f"cd coq && make -f Makefile.coq theories/{prop_module}.vo && "
                       f"coqc Audit_{prop_module}.v (Print Assumptions per theorem)")
    return tinfo
